"""Term layer of the symbolic tensor payload: z3 terms for tensor elements, smart constructors,
Ackermannised transcendental functions with ground axioms, and the per-path context.

Theories
--------
mode "R": float dtypes are z3 Reals (exact arithmetic, transcendental functions abstracted).
mode "F": float32 / float64 are IEEE FP sorts (round-nearest-even), transcendental functions are
          abstracted by fresh FP constants with congruence only.
Bool / Int dtypes are z3 Bool / Int in both modes.
"""
from __future__ import annotations

import itertools
import math
import os
import struct
import time
from fractions import Fraction

import torch
import z3

INT_AS_REAL = True
STOP_EXPLORATION = False
BUDGET_EXHAUSTED = None
F_NATIVE_UF = False  # F mode: Ackermannise too (explicit congruence) - faster than UF+FP theory combination in z3
RNE = z3.RNE()
F32 = z3.Float32()
F64 = z3.Float64()


class Unsupported(Exception):
    """Raised when the engine meets something it cannot encode. Treated as harness error (exit 2), never
    as a property violation."""


class Infeasible(BaseException):
    """Current path condition is unsatisfiable: abandon the path (BaseException so that leaspy's own
    `except Exception` blocks can not swallow it)."""


# ------------------------------------------------------------------------------------------------
# context
# ------------------------------------------------------------------------------------------------
class Context:
    """Everything that is per execution path."""

    def __init__(self, mode="R"):
        self.mode = mode
        self.assumptions = []  # harness assumptions (preconditions)
        self.pc = []  # path condition (decisions taken)
        self.prefix = []  # forced decisions
        self.taken = []  # decisions taken on this run
        self.axioms = []  # ground axioms of abstracted functions
        self.apps = {}  # fname -> list[(args tuple, const)]
        self.app_index = {}  # app term id -> (fname, args)
        self.app_order = []
        self.ack_memo = {}
        self.ack_consts = {}
        self.ack_apps = {}
        self.inputs = {}  # name -> (SymTensor) registered symbolic inputs (for models / replay)
        self.fresh = itertools.count()
        self.opaque_ops = set()
        self.n_queries = 0
        self.solver_s = 0.0
        self.notes = []
        self.sqrt_apps = []
        self.decide_timeout_ms = 5000
        self.unknown_decisions = 0
        self.congruence = True  # True (all pairs) | False | 'pruned' (numeric-fingerprint filtered)
        self.fp_pins = {}
        self.fp_alias = {}  # const id -> name used for its pseudo-random fingerprint value
        self.decisions = []  # (condition term, outcome) of every symbolic Python-level branch on this path
        self.lemmas = []  # on-request lemma instances (each must be justified by the harness)

    def fresh_name(self, base):
        return f"{base}!{next(self.fresh)}"


CTX = Context()


def new_context(mode="R", prefix=()):
    global CTX
    CTX = Context(mode)
    CTX.prefix = list(prefix)
    return CTX


def ctx() -> Context:
    return CTX


# ------------------------------------------------------------------------------------------------
# sorts / lifting
# ------------------------------------------------------------------------------------------------
def sort_of_dtype(dtype: torch.dtype):
    if dtype == torch.bool:
        return z3.BoolSort()
    if dtype in (torch.int64, torch.int32, torch.int16, torch.int8, torch.uint8):
        # in real mode integer tensors (counts, sums of masks) are embedded in the reals: keeps goals inside QF_NRA
        return z3.RealSort() if CTX.mode == "R" and INT_AS_REAL else z3.IntSort()
    if dtype.is_floating_point:
        if CTX.mode == "R":
            return z3.RealSort()
        if dtype == torch.float64:
            return F64
        if dtype in (torch.float32, torch.float16, torch.bfloat16):
            return F32
    raise Unsupported(f"dtype {dtype}")


def is_fp(t):
    return z3.is_fp(t)


def real_val(x):
    if isinstance(x, Fraction):
        return z3.RealVal(f"{x.numerator}/{x.denominator}")
    if isinstance(x, int):
        return z3.RealVal(x)
    if isinstance(x, float):
        if math.isnan(x) or math.isinf(x):
            raise Unsupported(f"non-finite constant {x} in real mode")
        f = Fraction(x)
        return z3.RealVal(f"{f.numerator}/{f.denominator}")
    raise Unsupported(f"real_val {type(x)}")


def const_of(x, dtype: torch.dtype):
    """python scalar -> numeral term of the sort of `dtype`."""
    if isinstance(x, z3.ExprRef):
        return x
    s = sort_of_dtype(dtype)
    if dtype == torch.bool:
        return z3.BoolVal(bool(x))
    if s == z3.IntSort():
        return z3.IntVal(int(x))
    if s == z3.RealSort():
        if isinstance(x, bool):
            x = int(x)
        return real_val(x)
    return z3.FPVal(float(x), s)


def num_value(t):
    """numeral term -> python value, else None."""
    if isinstance(t, (bool, int, float)):
        return t
    if z3.is_true(t):
        return True
    if z3.is_false(t):
        return False
    if z3.is_int_value(t):
        return t.as_long()
    if z3.is_rational_value(t):
        return Fraction(t.numerator_as_long(), t.denominator_as_long())
    if z3.is_fp_value(t):
        if t.isNaN():
            return float("nan")
        if t.isInf():
            return float("-inf") if t.isNegative() else float("inf")
        bv = z3.simplify(z3.fpToIEEEBV(t)).as_long()
        if t.sort() == F32:
            return struct.unpack("<f", struct.pack("<I", bv))[0]
        return struct.unpack("<d", struct.pack("<Q", bv))[0]
    return None


def is_num(t):
    return num_value(t) is not None


# ------------------------------------------------------------------------------------------------
# casts
# ------------------------------------------------------------------------------------------------
def cast(t, to_dtype: torch.dtype, from_dtype=None):
    """Convert a term (of any of our sorts) to the sort of `to_dtype` with torch's semantics."""
    target = sort_of_dtype(to_dtype)
    s = t.sort()
    if from_dtype is not None and from_dtype.is_floating_point and not to_dtype.is_floating_point and to_dtype != torch.bool and s == target:
        # float -> integer dtype while integers are embedded in the reals: truncation toward zero
        v = num_value(t)
        if v is not None:
            return real_val(int(v))
        raise Unsupported("float -> int conversion of a symbolic value in real mode")
    if s == target:
        return t
    if to_dtype == torch.bool:
        if s == z3.IntSort():
            return mk_not(mk_eq(t, z3.IntVal(0)))
        if s == z3.RealSort():
            return mk_not(mk_eq(t, z3.RealVal(0)))
        if z3.is_fp(t):
            return mk_not(z3.fpEQ(t, z3.FPVal(0.0, s)))  # NaN -> True as in torch
    if s == z3.BoolSort():
        v = num_value(t)
        if v is not None:
            return const_of(1 if v else 0, to_dtype)
        return z3.If(t, const_of(1, to_dtype), const_of(0, to_dtype))
    if s == z3.IntSort():
        v = num_value(t)
        if v is not None:
            return const_of(v, to_dtype)
        if target == z3.RealSort():
            return z3.ToReal(t)
        if z3.is_fp_sort(target):
            return z3.fpRealToFP(RNE, z3.ToReal(t), target)
    if s == z3.RealSort():
        if target == z3.IntSort():
            # torch truncates toward zero
            v = num_value(t)
            if v is not None:
                return z3.IntVal(int(v))
            fl = z3.ToInt(t)
            return z3.If(t >= 0, fl, z3.If(z3.ToReal(fl) == t, fl, fl + 1))
        if z3.is_fp_sort(target):
            return z3.fpRealToFP(RNE, t, target)
    if z3.is_fp(t) and target == z3.IntSort():
        v = num_value(t)
        if v is not None and v == v and abs(v) != float("inf"):
            return z3.IntVal(int(v))
        r = z3.fpToReal(t)
        return z3.If(r >= 0, z3.ToInt(r), -z3.ToInt(-r))  # truncation toward zero (NaN/inf: unspecified, as in torch)
    if z3.is_fp(t):
        if z3.is_fp_sort(target):
            v = num_value(t)
            if v is not None:
                return z3.FPVal(v, target)
            return z3.fpFPToFP(RNE, t, target)
        if target == z3.RealSort():
            return z3.fpToReal(t)
    raise Unsupported(f"cast {s} -> {to_dtype}")


# ------------------------------------------------------------------------------------------------
# smart constructors (light constant folding keeps terms small; all folds are sound in their theory)
# ------------------------------------------------------------------------------------------------
def _both_num(a, b):
    va, vb = num_value(a), num_value(b)
    if va is not None and vb is not None:
        return va, vb
    return None


def _mk_num_like(v, like):
    s = like.sort()
    if s == z3.IntSort():
        return z3.IntVal(int(v))
    if s == z3.RealSort():
        return real_val(v if isinstance(v, (Fraction, int)) else Fraction(v))
    return z3.FPVal(float(v), s)


def _fp_const_fold(op, a, b):
    """fold FP numerals with numpy in the right width (exact IEEE)"""
    import numpy as np

    va, vb = num_value(a), num_value(b)
    ty = np.float32 if a.sort() == F32 else np.float64
    with np.errstate(all="ignore"):
        r = op(ty(va), ty(vb))
    return z3.FPVal(float(r), a.sort())


LIFT_ITE = True


def _is_ite(t):
    return z3.is_app_of(t, z3.Z3_OP_ITE)


def _lift2(op, a, b):
    """op(If(c,x,y), b) -> If(c, op(x,b), op(y,b)) when exactly one operand is a top-level ite (keeps abstracted
    function applications free of ites, so that contextual simplification never has to create variant applications)"""
    if not LIFT_ITE:
        return None
    ia, ib = _is_ite(a), _is_ite(b)
    # only against a numeral: lifting against arbitrary terms would turn sums of masked terms into exponential ite trees
    if ia and not ib and is_num(b):
        return mk_ite(a.arg(0), op(a.arg(1), b), op(a.arg(2), b))
    if ib and not ia and is_num(a):
        return mk_ite(b.arg(0), op(a, b.arg(1)), op(a, b.arg(2)))
    return None


def mk_add(a, b):
    r = _lift2(mk_add, a, b)
    if r is not None:
        return r
    if z3.is_fp(a):
        if is_num(a) and is_num(b):
            return _fp_const_fold(lambda x, y: x + y, a, b)
        return z3.fpAdd(RNE, a, b)
    vb = num_value(b)
    va = num_value(a)
    if va is not None and vb is not None:
        return _mk_num_like(va + vb, a)
    if va is not None and va == 0:
        return b
    if vb is not None and vb == 0:
        return a
    return a + b


def mk_sub(a, b):
    r = _lift2(mk_sub, a, b)
    if r is not None:
        return r
    if z3.is_fp(a):
        if is_num(a) and is_num(b):
            return _fp_const_fold(lambda x, y: x - y, a, b)
        return z3.fpSub(RNE, a, b)
    va, vb = num_value(a), num_value(b)
    if va is not None and vb is not None:
        return _mk_num_like(va - vb, a)
    if vb is not None and vb == 0:
        return a
    return a - b


def mk_mul(a, b):
    if z3.is_fp(a):
        if is_num(a) and is_num(b):
            return _fp_const_fold(lambda x, y: x * y, a, b)
        # If(c, 1, 0) * x  ->  If(c, x, 0 * x)   (1 * x is exact in IEEE; the 0 * x branch is kept as a product)
        for p, q in ((a, b), (b, a)):
            if z3.is_app_of(p, z3.Z3_OP_ITE) and is_num(p.arg(1)) and is_num(p.arg(2)):
                vt, ve = num_value(p.arg(1)), num_value(p.arg(2))
                if {vt, ve} <= {0.0, 1.0} and str(vt) != "-0.0" and str(ve) != "-0.0":
                    c = p.arg(0)
                    qt, qe = simp_under(q, c, True), simp_under(q, c, False)
                    zero = z3.FPVal(0.0, q.sort())
                    return mk_ite(c, qt if vt == 1.0 else mk_mul(zero, qt), qe if ve == 1.0 else mk_mul(zero, qe))
        r = _lift2(mk_mul, a, b)
        if r is not None:
            return r
        return z3.fpMul(RNE, a, b)
    va, vb = num_value(a), num_value(b)
    if va is not None and vb is not None:
        return _mk_num_like(va * vb, a)
    if va is not None:
        if va == 0:
            return a
        if va == 1:
            return b
    if vb is not None:
        if vb == 0:
            return b
        if vb == 1:
            return a
    # If(c,1,0) * x  ->  If(c, x, 0)   (exact in Int/Real)
    for p, q in ((a, b), (b, a)):
        if z3.is_app_of(p, z3.Z3_OP_ITE):
            t, e = p.arg(1), p.arg(2)
            vt, ve = num_value(t), num_value(e)
            if vt is not None and ve is not None and {vt, ve} <= {0, 1}:
                zero = _mk_num_like(0, q)
                return mk_ite(p.arg(0), q if vt == 1 else zero, q if ve == 1 else zero)
    r = _lift2(mk_mul, a, b)
    if r is not None:
        return r
    return a * b


def mk_div(a, b):
    r = _lift2(mk_div, a, b)
    if r is not None:
        return r
    if z3.is_fp(a):
        if is_num(a) and is_num(b):
            return _fp_const_fold(lambda x, y: x / y, a, b)
        return z3.fpDiv(RNE, a, b)
    va, vb = num_value(a), num_value(b)
    if vb is not None:
        if vb == 0:
            raise Unsupported("division by literal zero in real mode")
        if va is not None:
            return _mk_num_like(Fraction(va) / Fraction(vb), a)
        if vb == 1:
            return a
    return a / b


def mk_neg(a):
    if LIFT_ITE and _is_ite(a):
        return mk_ite(a.arg(0), mk_neg(a.arg(1)), mk_neg(a.arg(2)))
    if z3.is_fp(a):
        return z3.fpNeg(a)
    va = num_value(a)
    if va is not None:
        return _mk_num_like(-va, a)
    return -a


def mk_not(a):
    if z3.is_true(a):
        return z3.BoolVal(False)
    if z3.is_false(a):
        return z3.BoolVal(True)
    if z3.is_not(a):
        return a.arg(0)
    return z3.Not(a)


def mk_and(*xs):
    out = []
    for x in xs:
        if z3.is_false(x):
            return z3.BoolVal(False)
        if z3.is_true(x):
            continue
        out.append(x)
    if not out:
        return z3.BoolVal(True)
    if len(out) == 1:
        return out[0]
    return z3.And(*out)


def mk_or(*xs):
    out = []
    for x in xs:
        if z3.is_true(x):
            return z3.BoolVal(True)
        if z3.is_false(x):
            continue
        out.append(x)
    if not out:
        return z3.BoolVal(False)
    if len(out) == 1:
        return out[0]
    return z3.Or(*out)


CTX_SIMPLIFY = True


def _facts(c, val):
    """literal facts (term, bool) implied by `c == val`"""
    out = [(c, val)]
    if z3.is_not(c):
        out += _facts(c.arg(0), not val)
    elif z3.is_and(c) and val:
        for x in c.children():
            out += _facts(x, True)
    elif z3.is_or(c) and not val:
        for x in c.children():
            out += _facts(x, False)
    return out


def simp_under(t, c, val):
    """t simplified under the hypothesis c == val (equivalence preserving under that hypothesis)"""
    if not CTX_SIMPLIFY or is_num(t) or t.num_args() == 0:
        return t
    subs = [(x, z3.BoolVal(v)) for x, v in _facts(c, val) if not (z3.is_true(x) or z3.is_false(x))]
    t2 = z3.substitute(t, *subs)
    if t2.eq(t):
        return t
    return _light_simplify(t2)


def _light_simplify(t):
    return z3.simplify(t, som=False, flat=False, blast_select_store=False, elim_and=False, local_ctx=False, mul_to_power=False, hoist_mul=False, sort_sums=False, arith_lhs=False, algebraic_number_evaluator=False)


def mk_ite(c, a, b):
    if z3.is_true(c):
        return a
    if z3.is_false(c):
        return b
    if a.eq(b):
        return a
    a, b = simp_under(a, c, True), simp_under(b, c, False)
    if a.eq(b):
        return a
    if z3.is_bool(a):
        if z3.is_true(a) and z3.is_false(b):
            return c
        if z3.is_false(a) and z3.is_true(b):
            return mk_not(c)
    return z3.If(c, a, b)


def _ite_num_fold(rel, a, b):
    """rel(If(c, n1, n2), n) -> If(c, rel(n1,n), rel(n2,n)) when everything is a numeral (None otherwise)"""
    for p, q, flip in ((a, b, False), (b, a, True)):
        if z3.is_app_of(p, z3.Z3_OP_ITE) and is_num(q) and is_num(p.arg(1)) and is_num(p.arg(2)):
            t = rel(q, p.arg(1)) if flip else rel(p.arg(1), q)
            e = rel(q, p.arg(2)) if flip else rel(p.arg(2), q)
            return mk_ite(p.arg(0), t, e)
    return None


def mk_eq(a, b):
    """torch `==` (IEEE equality for floats)"""
    r = _ite_num_fold(mk_eq, a, b)
    if r is not None:
        return r
    if z3.is_fp(a):
        va, vb = num_value(a), num_value(b)
        if va is not None and vb is not None:
            return z3.BoolVal(va == vb)
        return z3.fpEQ(a, b)
    if a.eq(b):
        return z3.BoolVal(True)
    nb = _both_num(a, b)
    if nb:
        return z3.BoolVal(nb[0] == nb[1])
    return a == b


def mk_cmp(op, a, b):
    r = _ite_num_fold(lambda x, y: mk_cmp(op, x, y), a, b)
    if r is not None:
        return r
    nb = _both_num(a, b)
    if nb:
        va, vb = nb
        return z3.BoolVal({"lt": va < vb, "le": va <= vb, "gt": va > vb, "ge": va >= vb}[op])
    if z3.is_fp(a):
        return {"lt": z3.fpLT, "le": z3.fpLEQ, "gt": z3.fpGT, "ge": z3.fpGEQ}[op](a, b)
    if z3.is_bool(a):
        raise Unsupported("ordering on bools")
    return {"lt": a < b, "le": a <= b, "gt": a > b, "ge": a >= b}[op]


def same_value(a, b):
    """Bit-level 'same value' (NaN equals NaN) – used by assertions on F payloads; plain equality otherwise."""
    if a.eq(b):
        return z3.BoolVal(True)
    if z3.is_fp(a):
        a2, b2 = _light_simplify(a), _light_simplify(b)
        if a2.eq(b2):
            return z3.BoolVal(True)
        return z3.Or(z3.fpEQ(a, b), z3.And(z3.fpIsNaN(a), z3.fpIsNaN(b)))
    return a == b


def implies_same(h, a, b):
    """h -> a and b are the same value; both sides are first simplified under h (so that values selected by h's
    literals become syntactically equal)"""
    if z3.is_true(h):
        return same_value(a, b)
    a2, b2 = simp_under(a, h, True), simp_under(b, h, True)
    sv = same_value(a2, b2)
    if z3.is_true(sv):
        return sv
    return z3.Implies(h, sv)


# ------------------------------------------------------------------------------------------------
# abstracted functions (Ackermannised): fresh constant per distinct application + ground axioms
# ------------------------------------------------------------------------------------------------
_DECLS = {}


def _decl(fname, arg_sorts, sort):
    key = (fname, tuple(str(a) for a in arg_sorts), str(sort))
    d = _DECLS.get(key)
    if d is None:
        d = z3.Function(fname, *arg_sorts, sort)
        _DECLS[key] = d
    return d


def apply_fn(fname, args, sort=None):
    """Application of an abstracted (uninterpreted) function. Terms keep the application structure `f(args)` so that
    substitution / contextual simplification reaches the arguments; for the nlsat tactic the applications are replaced
    by constants at solve time (Ackermannisation with explicit congruence, see `ackermannize`)."""
    c = CTX
    args = tuple(args)
    sort = sort if sort is not None else args[0].sort()
    if LIFT_ITE and len(args) <= 2 and not fname.startswith("opaque"):
        ites = [k for k, a in enumerate(args) if _is_ite(a)]
        if len(ites) == 1:
            k = ites[0]
            a = args[k]
            return mk_ite(a.arg(0), apply_fn(fname, args[:k] + (a.arg(1),) + args[k + 1 :], sort), apply_fn(fname, args[:k] + (a.arg(2),) + args[k + 1 :], sort))
    app = _decl(fname, [a.sort() for a in args], sort)(*args)
    if app.get_id() in c.app_index:
        return app
    c.app_index[app.get_id()] = (fname, args)
    c.apps.setdefault(fname, []).append((args, app))
    c.app_order.append((fname, args, app))
    _emit_axioms(fname, args, app)
    return app


def _emit_axioms(fname, args, k):
    c = CTX
    if z3.is_fp(k):
        # F mode: only NaN propagation facts that hold for the true functions
        x = args[0]
        if fname in ("exp", "sigmoid", "log", "sqrt", "lgamma", "tanh", "log1p", "expm1"):
            c.axioms.append(z3.Implies(z3.fpIsNaN(x), z3.fpIsNaN(k)))
        if fname == "exp":
            c.axioms.append(z3.Implies(z3.Not(z3.fpIsNaN(x)), z3.And(z3.Not(z3.fpIsNaN(k)), z3.fpGEQ(k, z3.FPVal(0.0, k.sort())))))
        if fname in ("log", "log1p"):
            # IEEE log / log1p on the boundary of their domain (true of the libm functions torch calls)
            srt = k.sort()
            lo = z3.FPVal(0.0 if fname == "log" else -1.0, srt)
            unit = z3.FPVal(1.0 if fname == "log" else 0.0, srt)
            c.axioms.append(z3.Implies(z3.fpLT(x, lo), z3.fpIsNaN(k)))
            c.axioms.append(z3.Implies(z3.fpEQ(x, lo), z3.And(z3.fpIsInf(k), z3.fpIsNegative(k))))
            c.axioms.append(z3.Implies(z3.fpGT(x, lo), z3.Not(z3.fpIsNaN(k))))
            c.axioms.append(z3.Implies(z3.And(z3.fpGT(x, lo), z3.Not(z3.fpIsInf(x))), z3.Not(z3.fpIsInf(k))))
            c.axioms.append(z3.Implies(z3.And(z3.fpIsInf(x), z3.fpIsPositive(x)), z3.And(z3.fpIsInf(k), z3.fpIsPositive(k))))
            c.axioms.append(z3.Implies(z3.fpEQ(x, unit), z3.fpIsZero(k)))
            c.axioms.append(z3.Implies(z3.And(z3.fpGT(x, lo), z3.fpLT(x, unit)), z3.fpLEQ(k, z3.FPVal(0.0, srt))))
            c.axioms.append(z3.Implies(z3.fpGT(x, unit), z3.fpGEQ(k, z3.FPVal(0.0, srt))))
        if fname == "pow":
            b, e = args
            zero = z3.FPVal(0.0, k.sort())
            # IEEE pow: pow(+-0, e > 0) is a zero; a non-negative base with non-NaN operands never gives NaN
            c.axioms.append(z3.Implies(z3.And(z3.fpIsZero(b), z3.fpGT(e, zero)), z3.fpIsZero(k)))
            c.axioms.append(z3.Implies(z3.And(z3.fpGEQ(b, zero), z3.Not(z3.fpIsNaN(e))), z3.And(z3.Not(z3.fpIsNaN(k)), z3.fpGEQ(k, zero))))
        if fname == "sigmoid":
            c.axioms.append(
                z3.Implies(
                    z3.Not(z3.fpIsNaN(x)),
                    z3.And(z3.fpGEQ(k, z3.FPVal(0.0, k.sort())), z3.fpLEQ(k, z3.FPVal(1.0, k.sort()))),
                )
            )
        return
    if fname == "exp":
        x = args[0]
        c.axioms.append(k > 0)
        c.axioms.append(z3.And(z3.Implies(x > 0, k > 1), z3.Implies(x < 0, k < 1), z3.Implies(x == 0, k == 1)))
    elif fname == "log":
        x = args[0]
        c.axioms.append(z3.And(z3.Implies(x > 1, k > 0), z3.Implies(z3.And(x > 0, x < 1), k < 0), z3.Implies(x == 1, k == 0)))
    elif fname == "sqrt":
        x = args[0]
        c.axioms.append(z3.Implies(x >= 0, z3.And(k >= 0, k * k == x)))
        c.sqrt_apps.append((x, k))
    elif fname == "pow":
        b, e = args
        c.axioms.append(z3.Implies(b > 0, k > 0))
        c.axioms.append(z3.Implies(z3.And(b == 0, e > 0), k == 0))
        c.axioms.append(z3.Implies(e == 1, k == b))
        c.axioms.append(z3.Implies(z3.And(e == 0, b != 0), k == 1))
    elif fname == "softmax_den":
        c.axioms.append(k > 0)


def monotone_axioms(fnames=("exp", "log", "sigmoid_arg")):
    """x <= y -> f(x) <= f(y) (and strict) for pairs of applications (true of exp/log on their domains)."""
    out = []
    for fname in fnames:
        apps = CTX.apps.get(fname, [])
        for i in range(len(apps)):
            for j in range(len(apps)):
                if i == j:
                    continue
                (x,), kx = apps[i]
                (y,), ky = apps[j]
                if z3.is_fp(kx):
                    continue
                if fname == "log":
                    out.append(z3.Implies(z3.And(x > 0, x <= y), kx <= ky))
                else:
                    out.append(z3.Implies(x <= y, kx <= ky))
                    out.append(z3.Implies(x < y, kx < ky))
    return out


def exp_sum_lemma(a, b):
    """exp(a)*exp(b) == exp(a+b) instance (requested by harnesses; true of the real exponential)."""
    ea, eb = apply_fn("exp", (a,)), apply_fn("exp", (b,))
    eab = apply_fn("exp", (z3.simplify(a + b),))
    return ea * eb == eab


# transcendental wrappers used by the tensor handlers -------------------------------------------
def t_exp(x):
    v = num_value(x)
    if v is not None and v == 0 and not z3.is_fp(x):
        return real_val(1)
    return apply_fn("exp", (x,))


def t_log(x):
    v = num_value(x)
    if v is not None and v == 1 and not z3.is_fp(x):
        return real_val(0)
    return apply_fn("log", (x,))


def t_sqrt(x):
    if z3.is_fp(x):
        return z3.fpSqrt(RNE, x)
    v = num_value(x)
    if v is not None:
        if v == 0:
            return x
        if v == 1:
            return x
        # exact rational root?
        fr = Fraction(v)
        n, d = math.isqrt(fr.numerator), math.isqrt(fr.denominator)
        if n * n == fr.numerator and d * d == fr.denominator:
            return real_val(Fraction(n, d))
    return apply_fn("sqrt", (x,))


def t_sigmoid(x):
    if z3.is_fp(x):
        return apply_fn("sigmoid", (x,))
    # definition: 1 / (1 + exp(-x))   -> range (0,1) follows from exp > 0
    return mk_div(real_val(1), mk_add(real_val(1), t_exp(mk_neg(x))))


def t_pow(b, e):
    """b ** e for term exponent or python exponent"""
    if isinstance(e, (int,)) or (isinstance(e, float) and float(e).is_integer() and abs(e) <= 8):
        e = int(e)
        if e == 0:
            return _mk_num_like(1, b)
        neg = e < 0
        r = b
        for _ in range(abs(e) - 1):
            r = mk_mul(r, b)
        if neg:
            return mk_div(_mk_num_like(1, b), r)
        return r
    if isinstance(e, float):
        if e == 0.5:
            return t_sqrt(b)
        e = const_of(e, torch.float32 if not z3.is_fp(b) else (torch.float32 if b.sort() == F32 else torch.float64))
    return apply_fn("pow", (b, e))


# ------------------------------------------------------------------------------------------------
# solving
# ------------------------------------------------------------------------------------------------
class Verdict:
    def __init__(self, status, model=None, seconds=0.0, tactic="", reason=""):
        self.status = status  # 'unsat' | 'sat' | 'unknown'
        self.model = model
        self.seconds = seconds
        self.tactic = tactic
        self.reason = reason

    def __repr__(self):
        return f"Verdict({self.status}, {self.seconds:.2f}s, {self.tactic})"


def background(include_pc=True):
    c = CTX
    bg = list(c.assumptions) + list(c.axioms) + list(c.lemmas)
    if include_pc:
        bg += list(c.pc)
    return bg


def is_uf_app(t):
    return t.num_args() > 0 and t.decl().kind() == z3.Z3_OP_UNINTERPRETED


def ack(t):
    """t with every uninterpreted application replaced (bottom-up) by a constant; structurally equal applications
    (after replacement of their arguments) share the constant."""
    c = CTX
    memo = c.ack_memo  # id -> (key term kept alive, result): z3 reuses AST ids of collected terms
    root = t
    stack = [t]
    while stack:
        x = stack[-1]
        i = x.get_id()
        if i in memo:
            stack.pop()
            continue
        if x.num_args() == 0:
            memo[i] = (x, x)
            stack.pop()
            continue
        ch = x.children()
        pending = [k for k in ch if k.get_id() not in memo]
        if pending:
            stack.extend(pending)
            continue
        new = [memo[k.get_id()][1] for k in ch]
        if is_uf_app(x):
            fname = x.decl().name()
            key = (fname,) + tuple(n.get_id() for n in new)
            k = c.ack_consts.get(key)
            if k is None:
                k = z3.Const(f"{fname}#{len(c.ack_apps.get(fname, []))}", x.sort())
                c.ack_consts[key] = k
                c.ack_apps.setdefault(fname, []).append((tuple(new), k, x))
            memo[i] = (x, k)
        else:
            if all(a.eq(b) for a, b in zip(ch, new)):
                memo[i] = (x, x)
            else:
                memo[i] = (x, x.decl()(*new))
        stack.pop()
    return memo[root.get_id()][1]


def ack_congruence(present=None):
    """explicit congruence instances between the Ackermann constants (all pairs, or fingerprint-pruned); only constants
    occurring in the query (`present`: ids) are related"""
    c = CTX
    if not c.congruence:
        return []
    if present is not None:
        # close under "occurs in the arguments of a present application"
        present = set(present)
        changed = True
        while changed:
            changed = False
            for apps in c.ack_apps.values():
                for args, k, _ in apps:
                    if k.get_id() in present:
                        for a in args:
                            cs = consts_of(a)
                            if not cs <= present:
                                present |= cs
                                changed = True
    fps = None
    if c.congruence == "pruned":
        try:
            fps = [Fingerprinter(s_, c.fp_pins) for s_ in range(2)]
        except Unsupported:
            fps = None
    out = []
    kept = dropped = 0
    for fname, apps in c.ack_apps.items():
        n = len(apps)
        sig = None
        if fps is not None and n > 1:
            try:
                sig = [tuple(tuple(float(fp.ev(a)) for a in orig.children()) for fp in fps) for (_, _, orig) in apps]
            except (Unsupported, RecursionError):
                sig = None
        for i in range(n):
            ai, ki, _ = apps[i]
            if present is not None and ki.get_id() not in present:
                continue
            for j in range(i + 1, n):
                aj, kj, _ = apps[j]
                if present is not None and kj.get_id() not in present:
                    continue
                if len(ai) != len(aj) or ki.sort() != kj.sort():
                    continue
                if sig is not None:
                    close = all(abs(x - y) <= 1e-6 * (1 + abs(x) + abs(y)) for p_, q_ in zip(sig[i], sig[j]) for x, y in zip(p_, q_))
                    if not close:
                        dropped += 1
                        continue
                kept += 1
                out.append(z3.Implies(z3.And(*[x == y for x, y in zip(ai, aj)]), ki == kj))
    c.cong_stats = (kept, dropped)
    return out


def check_sat(formulas, timeout_ms=30000, tactics=None):
    """Satisfiability of the conjunction. Portfolio: for real arithmetic try nlsat first, then default solver."""
    c = CTX
    if tactics is None:
        tactics = ("default",) if c.mode == "F" else ("qfnra-nlsat", "default")
    t_all = time.time()
    last = None
    acked = None
    for tac in tactics:
        t0 = time.time()
        try:
            if tac == "default" and c.mode == "F" and F_NATIVE_UF:
                s = z3.Solver()
                s.set("timeout", int(timeout_ms))
                s.add(*formulas)
            else:
                if acked is None:
                    acked = [ack(f) for f in formulas]
                    present = set()
                    for f in acked:
                        present |= consts_of(f)
                    acked = acked + ack_congruence(present)
                s = z3.Solver() if tac == "default" else z3.Tactic(tac).solver()
                s.set("timeout", int(timeout_ms))
                s.add(*acked)
            r = s.check()
        except z3.Z3Exception as e:  # tactic not applicable (e.g. ints / ite for nlsat)
            last = Verdict("unknown", None, time.time() - t0, tac, f"z3 exception: {e}")
            continue
        dt = time.time() - t0
        c.n_queries += 1
        c.solver_s += dt
        if r == z3.unsat:
            _cross_check(s)
            return Verdict("unsat", None, time.time() - t_all, tac)
        if r == z3.sat:
            return Verdict("sat", s.model(), time.time() - t_all, tac)
        last = Verdict("unknown", None, time.time() - t_all, tac, s.reason_unknown())
    return last


CROSS = {"n": 0, "checked": 0, "agree": 0, "inconclusive": 0, "disagree": []}


def _cross_check(solver):
    """second opinion on a sample of `unsat` verdicts: the same assertions are exported as SMT-LIB2 and decided by the cvc5 binary (1.0.3).
    A `sat` answer from cvc5 is a solver disagreement -> recorded, the check exits 2. Enabled by VERIF_CROSSCHECK=<every n-th unsat>."""
    every = int(os.environ.get("VERIF_CROSSCHECK", "0") or 0)
    if every <= 0:
        return
    CROSS["n"] += 1
    if CROSS["n"] % every:
        return
    txt = solver.to_smt2()
    if "(assert" not in txt:
        return
    ans = "unknown"
    import subprocess
    import sys
    import tempfile

    with tempfile.NamedTemporaryFile("w", suffix=".smt2", delete=False) as f:
        f.write("(set-logic ALL)\n" + txt)
        path = f.name
    try:
        # the cvc5 wheel (1.4.0, built with libpoly: `nl-cov` works there, not in the Debian binary), in a subprocess that can be killed
        p = subprocess.run([sys.executable, os.path.join(os.path.dirname(__file__), "cvc5_check.py"), path, CTX.mode], capture_output=True, text=True, timeout=45)
        out = p.stdout.strip().splitlines()
        ans = out[-1].strip() if out else "unknown"
    except Exception:  # noqa (timeout included)
        ans = "unknown"
    finally:
        try:
            os.unlink(path)
        except OSError:
            pass
    CROSS["checked"] += 1
    if ans == "unsat":
        CROSS["agree"] += 1
    elif ans == "sat":
        CROSS["disagree"].append(txt[:300])
    else:
        CROSS["inconclusive"] += 1


def prove(goal, timeout_ms=30000, extra=(), tactics=None):
    """Is `goal` entailed by assumptions ∧ axioms ∧ lemmas ∧ congruence ∧ path condition?
    unsat => proved; sat => counterexample model; unknown => inconclusive."""
    if z3.is_true(goal):
        return Verdict("unsat", None, 0.0, "trivial")
    bg = background() + list(extra)
    if SLICE_F:
        # cone of influence: dropping hypotheses is sound for proving; a sat answer is re-checked with everything
        sliced = cone_of_influence(goal, bg)
        v = check_sat(sliced + [mk_not(goal)], timeout_ms, tactics)
        if v.status == "unsat" or len(sliced) == len(bg):
            return v
    return check_sat(bg + [mk_not(goal)], timeout_ms, tactics)


SLICE_F = True
_CONSTS_MEMO = {}


def consts_of(t):
    """ids of the uninterpreted constants occurring in t"""
    key = t.get_id()
    hit = _CONSTS_MEMO.get(key)
    if hit is not None and hit[0].eq(t):
        return hit[1]
    seen, out, stack = set(), set(), [t]
    while stack:
        x = stack.pop()
        i = x.get_id()
        if i in seen:
            continue
        seen.add(i)
        if x.num_args() == 0:
            if x.decl().kind() == z3.Z3_OP_UNINTERPRETED:
                out.add(i)
        else:
            stack.extend(x.children())
    if len(_CONSTS_MEMO) > 20000:
        _CONSTS_MEMO.clear()
    _CONSTS_MEMO[key] = (t, frozenset(out))
    return _CONSTS_MEMO[key][1]


def cone_of_influence(goal, formulas):
    fc = [(f, consts_of(f)) for f in formulas]
    rel = set(consts_of(goal))
    chosen = [False] * len(fc)
    changed = True
    while changed:
        changed = False
        for k, (f, cs) in enumerate(fc):
            if not chosen[k] and (cs & rel or not cs):
                chosen[k] = True
                if not cs <= rel:
                    rel |= cs
                    changed = True
    return [f for k, (f, _) in enumerate(fc) if chosen[k]]


def feasible(extra=(), timeout_ms=10000):
    return check_sat(background() + list(extra), timeout_ms)


def entails(cond, timeout_ms=3000):
    v = prove(cond, timeout_ms)
    return v.status == "unsat"


# ------------------------------------------------------------------------------------------------
# decisions (forking)
# ------------------------------------------------------------------------------------------------
def decide(cond) -> bool:
    """Python-level branch on a symbolic Boolean. Solver decides feasibility of both outcomes under the
    current path condition; both feasible -> follow the decision prefix, record the decision."""
    c = CTX
    if isinstance(cond, bool):
        return cond
    cond = z3.simplify(cond)
    if z3.is_true(cond):
        return True
    if z3.is_false(cond):
        return False
    bg = background()
    if SLICE_F:
        # feasibility is over-approximated on the cone of influence of the condition (an infeasible path that slips
        # through is harmless: its obligations are discharged vacuously under the full path condition)
        bg = cone_of_influence(cond, bg)
    t = check_sat(bg + [cond], c.decide_timeout_ms)
    f = check_sat(bg + [z3.Not(cond)], c.decide_timeout_ms)
    if t.status == "unknown" or f.status == "unknown":
        c.unknown_decisions += 1
    can_t = t.status != "unsat"
    can_f = f.status != "unsat"
    if not can_t and not can_f:
        raise Infeasible()
    if not can_f:
        c.decisions.append((cond, True, "forced"))
        return True
    if not can_t:
        c.decisions.append((cond, False, "forced"))
        return False
    i = len(c.taken)
    k = c.prefix[i] if i < len(c.prefix) else 0
    c.taken.append((k, 2))
    choice = k == 0
    c.pc.append(cond if choice else z3.Not(cond))
    c.decisions.append((cond, choice, "fork"))
    return choice


def choose(n, label="ch"):
    """Nondeterministic choice in range(n): every alternative is feasible by construction (an unconstrained fresh
    integer), so the explorer enumerates the alternatives without asking the solver."""
    c = CTX
    if n <= 1:
        return 0
    i = len(c.taken)
    k = c.prefix[i] if i < len(c.prefix) else 0
    c.taken.append((k, n))
    return k


def assume(cond):
    CTX.assumptions.append(cond)


def explore(fn, mode="R", max_paths=1000000, setup=None, prefix0=()):
    """DFS over all feasible paths of fn() by re-execution with decision prefixes.
    Yields (context, result-or-exception). `prefix0` fixes the first decisions (used to split work across processes)."""
    stack = [list(prefix0)]
    n = 0
    global STOP_EXPLORATION, BUDGET_EXHAUSTED
    STOP_EXPLORATION = False
    t_start = time.time()
    budget = float(os.environ.get("VERIF_TASK_BUDGET", "900" if os.environ.get("VERIF_TIER", "quick") == "quick" else "5400"))
    while stack:
        if STOP_EXPLORATION:
            break
        if time.time() - t_start > budget:
            BUDGET_EXHAUSTED = f"exploration budget of {budget:.0f}s exhausted after {n} paths ({len(stack)} prefixes pending)"
            break
        prefix = stack.pop()
        c = new_context(mode, prefix)
        if setup:
            setup(c)
        try:
            res = fn()
        except Infeasible:
            continue
        except Unsupported:
            raise
        except Exception as e:  # an exception raised by the code under test is a result of that path
            res = e
        taken = c.taken
        for i in range(len(prefix), len(taken)):
            k, arity = taken[i]
            for alt in range(arity - 1, k, -1):
                stack.append([t[0] for t in taken[:i]] + [alt])
        n += 1
        yield c, res
        if n >= max_paths:
            raise Unsupported(f"path budget {max_paths} exhausted (unwinding bound too small)")


# ------------------------------------------------------------------------------------------------
# numeric fingerprints: prune useless congruence instances (sound: omitting a congruence axiom only weakens the
# background theory, it can make a proof fail -> inconclusive, never make a false claim provable)
# ------------------------------------------------------------------------------------------------
_TRUE_FUNCS = {
    "exp": lambda x: math.exp(max(min(x, 50.0), -50.0)),
    "log": lambda x: math.log(abs(x) + 1e-12),
    "sqrt": lambda x: math.sqrt(abs(x)),
    "tanh": math.tanh,
    "lgamma": lambda x: math.lgamma(abs(x) + 1e-3),
    "log1p": lambda x: math.log1p(abs(x)),
    "expm1": lambda x: math.expm1(max(min(x, 50.0), -50.0)),
}


def _pseudo(name, vals, seed):
    import hashlib

    key = name + "|" + ",".join("%.9g" % v for v in vals) + "|" + str(seed)
    h = int(hashlib.md5(key.encode()).hexdigest()[:12], 16)
    return 0.5 + (h % 10**6) / 10**6 * 1.5


class Fingerprinter:
    def __init__(self, seed, pins=None):
        self.seed = seed
        self.memo = {}
        self.pins = pins or {}

    def ev(self, t):
        i = t.get_id()
        if i in self.memo:
            return self.memo[i]
        r = self._ev(t)
        self.memo[i] = r
        return r

    def _ev(self, t):
        v = num_value(t)
        if v is not None:
            return float(v) if not isinstance(v, bool) else v
        if t.get_id() in self.pins:
            return self.pins[t.get_id()]
        k = t.decl().kind()
        if k == z3.Z3_OP_UNINTERPRETED and t.num_args() > 0:
            fname = t.decl().name()
            vals = [float(self.ev(a)) for a in t.children()]
            f = _TRUE_FUNCS.get(fname)
            if f is not None and len(vals) == 1:
                try:
                    return f(vals[0])
                except Exception:
                    return _pseudo(fname, vals, self.seed)
            if fname == "pow":
                try:
                    return abs(vals[0]) ** vals[1]
                except Exception:
                    return _pseudo(fname, vals, self.seed)
            return _pseudo(fname, vals, self.seed)
        if k == z3.Z3_OP_UNINTERPRETED and t.num_args() == 0:
            nm = CTX.fp_alias.get(t.get_id()) or str(t)
            if z3.is_bool(t):
                return _pseudo(nm, [], self.seed) > 1.25
            if z3.is_int(t):
                return float(int(_pseudo(nm, [], self.seed) * 3))
            return _pseudo(nm, [], self.seed)
        ch = [self.ev(c) for c in t.children()]
        try:
            if k == z3.Z3_OP_ADD:
                return sum(ch)
            if k == z3.Z3_OP_SUB:
                r = ch[0]
                for c in ch[1:]:
                    r -= c
                return r
            if k == z3.Z3_OP_UMINUS:
                return -ch[0]
            if k == z3.Z3_OP_MUL:
                r = 1.0
                for c in ch:
                    r *= c
                return r
            if k in (z3.Z3_OP_DIV, z3.Z3_OP_IDIV):
                return ch[0] / ch[1] if ch[1] != 0 else _pseudo("div0", [ch[0]], self.seed)
            if k == z3.Z3_OP_ITE:
                return ch[1] if ch[0] else ch[2]
            if k == z3.Z3_OP_AND:
                return all(ch)
            if k == z3.Z3_OP_OR:
                return any(ch)
            if k == z3.Z3_OP_NOT:
                return not ch[0]
            if k == z3.Z3_OP_EQ:
                return ch[0] == ch[1] if isinstance(ch[0], bool) else abs(ch[0] - ch[1]) <= 1e-9 * (1 + abs(ch[0]))
            if k == z3.Z3_OP_LE:
                return ch[0] <= ch[1]
            if k == z3.Z3_OP_LT:
                return ch[0] < ch[1]
            if k == z3.Z3_OP_GE:
                return ch[0] >= ch[1]
            if k == z3.Z3_OP_GT:
                return ch[0] > ch[1]
            if k == z3.Z3_OP_TO_REAL:
                return float(ch[0])
            if k == z3.Z3_OP_TO_INT:
                return float(math.floor(ch[0]))
            if k == z3.Z3_OP_IMPLIES:
                return (not ch[0]) or ch[1]
            if k == z3.Z3_OP_XOR:
                return bool(ch[0]) != bool(ch[1])
            if k == z3.Z3_OP_POWER:
                return abs(ch[0]) ** ch[1]
        except (OverflowError, ZeroDivisionError, ValueError):
            return _pseudo("err", [], self.seed)
        raise Unsupported(f"fingerprint of {t.decl()}")


def exp_shift_lemmas(shift, eshift=None, n_points=2):
    """For pairs of exp applications whose arguments differ (numerically, on random points with the true functions) by
    exactly +shift, add the instance  a_j == a_i + shift  ->  exp(a_j) == exp(a_i) * exp(shift).  Every instance is a true
    fact about exp whatever the fingerprints say; fingerprints only select which instances are worth adding."""
    c = CTX
    eshift = eshift if eshift is not None else apply_fn("exp", (shift,))
    apps = list(c.apps.get("exp", []))
    fps = [Fingerprinter(s_, c.fp_pins) for s_ in range(n_points)]
    vals = [[float(fp.ev(a[0])) for fp in fps] for a, _ in apps]
    sh = [float(fp.ev(shift)) for fp in fps]
    out = []
    for i, (ai, ki) in enumerate(apps):
        for j, (aj, kj) in enumerate(apps):
            if i == j:
                continue
            if all(abs(vals[j][p] - vals[i][p] - sh[p]) <= 1e-7 * (1 + abs(vals[j][p]) + abs(vals[i][p])) for p in range(n_points)):
                out.append(z3.Implies(aj[0] == ai[0] + shift, kj == ki * eshift))
    return out
