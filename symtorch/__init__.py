from . import terms
from .terms import (Unsupported, Infeasible, new_context, ctx, decide, choose, assume, explore, prove, check_sat,
                    feasible, entails, same_value, Verdict)
from .tensor import sym_int, SymTensor, SymScalar, sym, const, concretize, to_terms, vmap, mk, handler, HANDLERS
