"""stand-alone helper: decide an SMT-LIB2 file with the cvc5 wheel (run in a subprocess so that a hanging query can be killed)"""
import sys

import cvc5

path, mode = sys.argv[1], sys.argv[2]
slv = cvc5.Solver()
slv.setOption("tlimit-per", "20000")
if mode == "R":
    slv.setOption("nl-cov", "true")
parser = cvc5.InputParser(slv)
parser.setFileInput(cvc5.InputLanguage.SMT_LIB_2_6, path)
sm = parser.getSymbolManager()
ans = "unknown"
while True:
    cmd = parser.nextCommand()
    if cmd.isNull():
        break
    out = cmd.invoke(slv, sm)
    if cmd.getCommandName() == "check-sat":
        ans = str(out).strip()
print(ans)
