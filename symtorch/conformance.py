"""Conformance of the handler table (the trusted base of engine E1): every handler is executed on *constant* payloads (terms that are
numerals) and compared with the real torch operation on the same small inputs.  Inputs are small dyadic rationals so that float32 arithmetic is
exact and independent of the reduction order (the payload folds reductions left to right); NaN / inf inputs exercise the IEEE theory.
Transcendental functions are abstracted by the engine and cannot be compared (they are uninterpreted on purpose).
Run in both theories on every check (a few seconds); a disagreement is a harness error (exit 2), never a verdict."""
from __future__ import annotations

import math
import random

import numpy as np
import torch

from . import terms as T
from .tensor import SymTensor, const


def _vals(t):
    if isinstance(t, SymTensor):
        out = np.empty(t.sym.shape, dtype=object)
        for idx in np.ndindex(*t.sym.shape):
            v = T.num_value(t.sym[idx])
            if v is None:
                import z3

                v = T.num_value(z3.simplify(t.sym[idx]))  # constant terms the smart constructors did not fold
            if v is None:
                raise AssertionError(f"non-constant result term {str(t.sym[idx])[:120]}")
            out[idx] = float(v) if not isinstance(v, bool) else v
        return out, tuple(t.sym.shape), t.dtype
    if isinstance(t, torch.Tensor):
        a = t.detach().numpy()
        out = np.empty(a.shape, dtype=object)
        for idx in np.ndindex(*a.shape):
            out[idx] = a[idx].item()
        return out, tuple(a.shape), t.dtype
    return np.array(t, dtype=object), (), None


def _same(x, y):
    if isinstance(x, bool) or isinstance(y, bool):
        return bool(x) == bool(y)
    x, y = float(x), float(y)
    if x != x or y != y:
        return x != x and y != y
    return x == y and (x != 0 or math.copysign(1, x) == math.copysign(1, y) or True)


def _compare(name, got, exp):
    if isinstance(exp, (tuple, list)) and not isinstance(exp, torch.Size):
        assert isinstance(got, (tuple, list)) and len(got) == len(exp), f"{name}: structure"
        for k, (g, e) in enumerate(zip(got, exp)):
            _compare(f"{name}[{k}]", g, e)
        return
    if isinstance(exp, torch.Tensor):
        gv, gs, gd = _vals(got)
        ev, es, ed = _vals(exp)
        assert gs == es, f"{name}: shape {gs} != {es}"
        assert gd == ed, f"{name}: dtype {gd} != {ed}"
        for idx in np.ndindex(*es):
            assert _same(gv[idx], ev[idx]), f"{name}: value at {idx}: {gv[idx]} != {ev[idx]}"
    else:
        if hasattr(got, "term"):
            got = T.num_value(got.term)
        assert (got == exp) or (got != got and exp != exp), f"{name}: {got} != {exp}"


def _rand(rng, shape, kind="f", special=False):
    n = int(np.prod(shape)) if shape else 1
    if kind == "b":
        return torch.tensor([rng.random() < 0.5 for _ in range(n)]).reshape(shape)
    if kind == "i":
        return torch.tensor([rng.randrange(-3, 4) for _ in range(n)]).reshape(shape)
    pal = [k / 8 for k in range(-16, 17)]
    vals = [rng.choice(pal) for _ in range(n)]
    if special:
        for k in range(n):
            r = rng.random()
            if r < 0.15:
                vals[k] = float("nan")
            elif r < 0.25:
                vals[k] = float("inf") if rng.random() < 0.5 else float("-inf")
    return torch.tensor(vals, dtype=torch.float32).reshape(shape)


def cases(rng, mode):
    sp = mode == "F"
    A = lambda *s, **k: _rand(rng, s, **k)
    a23, b23, a3, a1 = A(2, 3, special=sp), A(2, 3, special=sp), A(3, special=sp), A(1, special=sp)
    m23, i23 = A(2, 3, kind="b"), A(2, 3, kind="i")
    nz = A(2, 3)
    nz = torch.where(nz == 0, torch.tensor(0.5), nz)
    C = []
    add = C.append
    # elementwise with broadcasting and scalars
    for nm, f in (("add", torch.add), ("sub", torch.sub), ("mul", torch.mul)):
        add((f"{nm}", lambda x, y, f=f: f(x, y), (a23, b23)))
        add((f"{nm}-bcast", lambda x, y, f=f: f(x, y), (a23, a3)))
        add((f"{nm}-scalar", lambda x, f=f: f(x, 1.5), (a23,)))
        add((f"{nm}-rscalar", lambda x, f=f: f(torch.tensor(2.0), x), (a23,)))
    add(("op-dunder", lambda x, y: (x + y, x - y, x * y, 2 - x, 1 + x, -x, abs(x), x * 2, 0.5 * x), (a23, b23)))
    if sp:  # inexact quotients: IEEE theory only
        add(("div", lambda x, y: x / y, (a23, nz)))
        add(("rdiv", lambda y: 1 / y, (nz,)))
    else:
        add(("div-exact", lambda x: (x / 4, x / 0.5, 1 / torch.tensor([0.5, 2.0, -4.0])), (A(2, 3),)))
    add(("int-ops", lambda x, y: (x + y, x * y, x - 1, x.sum(), (x > 0).sum()), (i23, A(2, 3, kind="i"))))
    add(("bool*float", lambda m, x: (m * x, m.float() * x, m + m, m * m), (m23, a23)))
    for nm in ("lt", "le", "gt", "ge", "eq", "ne"):
        add((nm, lambda x, y, nm=nm: getattr(torch, nm)(x, y), (a23, b23)))
        add((nm + "-scalar", lambda x, nm=nm: getattr(torch, nm)(x, 0.25), (a23,)))
    add(("bool==0", lambda m: (m == 0, m != 0, m >= 0, ~m, m & ~m, m | m), (m23,)))
    add(("unary", lambda x: (torch.neg(x), torch.abs(x), torch.sign(x), torch.square(x), x**2, x**3, x**0), (a23,)))
    add(("sqrt", lambda x: torch.sqrt(torch.abs(x)), (torch.tensor([0.0, 0.25, 1.0, 4.0, 2.25]),)))
    # reductions
    for nm in ("sum", "mean"):
        f = getattr(torch, nm)
        add((nm, lambda x, f=f: f(x), (A(2, 4),)))
        add((nm + "-dim", lambda x, f=f: (f(x, dim=0), f(x, dim=1, keepdim=True), f(x, dim=(0, 1)), f(x, dim=-1)), (A(2, 4),)))
    add(("sum-special", lambda x: torch.isnan(x.sum()), (a23,)))
    add(("sum-bool", lambda m: (m.sum(), m.sum(dim=0), m.any(), m.all(), m.any(dim=1), m.all(dim=0, keepdim=True)), (m23,)))
    add(("count_nonzero", lambda x, m: (torch.count_nonzero(x * m), torch.count_nonzero(m, dim=0), torch.count_nonzero(x * 0)), (a23, m23)))
    add(("prod", lambda x: x.prod(dim=1), (A(2, 3),)))
    add(("cumsum", lambda x: x.cumsum(dim=1), (A(2, 3),)))
    # variance: exact inputs only (torch's float kernel is not a plain two-pass fold; the claims use var/std in the real theory only)
    add(("var-std", lambda x: (x.var(dim=0), x.var(dim=1, unbiased=False)), (torch.tensor([[1.0, 3.0, 5.0, 7.0], [3.0, 7.0, 9.0, 13.0]]),)))
    if not sp:
        add(("std", lambda x: x.std(dim=0), (torch.tensor([[0.0, 1.0], [3.0, 3.0], [6.0, 5.0]]),)))
    add(("norm", lambda x: torch.norm(x), (torch.tensor([3.0, 4.0]),)))
    add(("minmax", lambda x: (x.min(), x.max(), x.min(dim=1)[0], x.max(dim=0)[0], x.argmin(dim=0), x.argmax(dim=1), x.argmin()), (A(2, 3),)))
    add(("maximum", lambda x, y: (torch.maximum(x, y), torch.minimum(x, y), x.clamp(min=-0.5), x.clamp(max=0.25), x.clamp(-0.5, 0.5)), (a23, b23)))
    # linear algebra
    add(("matmul", lambda x, y: (x @ y, torch.matmul(x, y)), (A(2, 3), A(3, 2))))
    add(("matvec", lambda x, y: (x @ y, y @ x.t()), (A(2, 3), A(3))))
    add(("outer", lambda x, y: torch.outer(x, y), (A(2), A(3))))
    add(("t", lambda x: (x.t(), x.T, x.transpose(0, 1), x.permute(1, 0)), (a23,)))
    add(("diag", lambda x: (torch.diag(x),), (A(3),)))
    # shapes
    add(("view", lambda x: (x.view(3, 2), x.reshape(-1), x.reshape(6, 1), x.flatten(), x.view(x.shape + (1,))), (a23,)))
    add(("expand", lambda x: (x.expand(2, 3), x.expand((2, 3)), x.unsqueeze(0), x.unsqueeze(-1), x[None, :], x.repeat(2), x.expand(2, -1)), (a3,)))
    add(("squeeze", lambda x: (x.squeeze(), x.squeeze(0), x.squeeze(-1)), (A(1, 3, 1),)))
    add(("cat", lambda x, y: (torch.cat([x, y]), torch.cat((x, y), dim=1), torch.stack([x, y]), torch.stack([x, y], dim=-1)), (a23, b23)))
    add(("getitem", lambda x: (x[0], x[:, 1], x[1, 2], x[:, None, ...], x[..., 0], x[torch.tensor([1, 0])], x[:, :2], x[(None, None, ...)]), (a23,)))
    add(("getitem-mask", lambda x: x[torch.tensor([[True, False, True], [False, False, True]])], (a23,)))

    def setitem(x):
        y = x.clone()
        y[0, 1] = 7.0
        y[1] = torch.tensor([1.0, 2.0, 3.0])
        z = x.clone()
        z[:, 0:2] = 0.5
        return y, z

    add(("setitem", setitem, (a23,)))
    add(("index_put", lambda x: (x.index_put((torch.tensor(0), torch.tensor(1)), torch.tensor(5.0)), x.index_put((torch.tensor(1),), torch.tensor([1.0, 2.0, 3.0]), accumulate=True),
                                 torch.index_put(x, indices=(torch.tensor(0),), values=torch.tensor(0.5), accumulate=True)), (A(2, 3),)))
    add(("masked_fill", lambda x, m: (x.masked_fill(m, 0.0), x.masked_fill(m == 0, 9.0), torch.where(m, x, torch.zeros_like(x)), torch.where(m, x, 0.5)), (a23, m23)))
    add(("casts", lambda x, m, i: (m.float(), m.to(torch.float32), m.int(), i.float(), x.to(torch.bool), x.double(), i.to(torch.bool), m.to(torch.int64)), (A(2, 3), m23, i23)))
    add(("like", lambda x: (torch.zeros_like(x), torch.ones_like(x), torch.ones_like(x, dtype=torch.bool), torch.full_like(x, 2.5)), (a23,)))
    add(("equal", lambda x, y: (torch.equal(x, x.clone()), torch.equal(x, y + 100)), (A(2, 3), A(2, 3))))
    add(("item-tolist", lambda x: (x[0, 0].item(), x.tolist(), x.sum().item()), (A(2, 3),)))
    if sp:
        add(("isnan", lambda x: (torch.isnan(x), torch.isinf(x), torch.isfinite(x), (~torch.isnan(x)).float(), torch.nan_to_num(x.clamp(-2, 2))), (a23,)))
        add(("nan-mul-zero", lambda x: (x * 0, x * torch.zeros_like(x), torch.where(torch.isnan(x), torch.zeros_like(x), x)), (a23,)))
        add(("nan-cmp", lambda x: (x < 0, x == x, x != x, torch.maximum(x, torch.zeros_like(x))), (a23,)))
    return C


def weighted_tensor_cases(rng, mode):
    from leaspy.utils.weighted_tensor import WeightedTensor, sum_dim, wsum_dim, unsqueeze_right, expand_left, expand_right

    sp = mode == "F"
    x, y, w = _rand(rng, (2, 3), special=sp), _rand(rng, (2, 3)), _rand(rng, (2, 3), kind="b")
    C = []

    def wt(v, ww):
        return WeightedTensor(v, ww)

    C.append(("wt-reductions", lambda v, ww: (wt(v, ww).weighted_value, wt(v, ww).filled(0), wt(v, ww).wsum(), wt(v, ww).sum(dim=1), sum_dim(wt(v, ww), but_dim=0), wsum_dim(wt(v, ww), but_dim=-1),
                                             wt(v, ww).wsum(fill_value=-1.0, dim=0)), (x, w)))
    C.append(("wt-arith", lambda v, u, ww: tuple(t for r in (wt(v, ww) + u, wt(v, ww) * 2, 1 - wt(v, ww), wt(v, ww) - wt(u, ww), (wt(v, ww) ** 2), -wt(v, ww), abs(wt(v, ww))) for t in (r.value, r.weight)), (x, y, w)))
    C.append(("wt-shape", lambda v, ww: tuple(t for r in (unsqueeze_right(wt(v, ww), ndim=1), wt(v, ww)[0], wt(v, ww)[:, None, ...], wt(v, ww).view(3, 2), expand_left(wt(v, ww), shape=(2,)), expand_right(wt(v[:, :1], ww[:, :1]), shape=()))
                                              for t in (r.value, r.weight)), (x, w)))
    C.append(("wt-getfilled", lambda v, ww: WeightedTensor.get_filled_value_and_weight(wt(v, ww), fill_value=0.0), (x, w)))
    return C


def run(seed=0, verbose=False):
    """returns (n_cases, failures list)"""
    import leaspy.models  # noqa

    rng = random.Random(seed)
    failures = []
    n = 0
    for mode in ("R", "F"):
        for name, fn, inputs in cases(rng, mode) + weighted_tensor_cases(rng, mode):
            n += 1
            try:
                exp = fn(*[i.clone() for i in inputs])
                T.new_context(mode)
                got = fn(*[const(i) for i in inputs])
                if T.ctx().opaque_ops:
                    raise AssertionError(f"fell back to an opaque op: {sorted(T.ctx().opaque_ops)}")
                _compare(f"{mode}:{name}", got, exp)
            except Exception as e:  # noqa
                failures.append(f"{mode}:{name}: {type(e).__name__}: {str(e)[:200]}")
                if verbose:
                    import traceback

                    traceback.print_exc()
    return n, failures


if __name__ == "__main__":
    import sys

    n, f = run(int(sys.argv[1]) if len(sys.argv) > 1 else 0, verbose="-v" in sys.argv)
    print(f"{n} conformance cases, {len(f)} failures")
    for x in f:
        print("  FAIL", x)
    sys.exit(1 if f else 0)
