"""Numpy-side twin of the payload: a tiny array-like (not an ndarray subclass) carrying z3 terms, dispatched through numpy's
__array_function__ / __array_ufunc__ protocols.  Only what leaspy's numpy glue needs (constant-prediction benchmark)."""
from __future__ import annotations

import numpy as np
import torch
import z3

from . import terms as T
from .tensor import SymScalar, scalar_out, select_by_index, vmap
from .terms import Unsupported

F64 = torch.float64


def _isnan(x):
    return z3.fpIsNaN(x) if z3.is_fp(x) else z3.BoolVal(False)


class SymNd:
    __array_priority__ = 1000

    def __init__(self, terms, dtype=F64):
        self.a = np.asarray(terms, dtype=object)
        self.dtype_t = dtype

    # -- basic protocol ------------------------------------------------------------------------------------------
    @property
    def shape(self):
        return self.a.shape

    @property
    def ndim(self):
        return self.a.ndim

    def __len__(self):
        return self.a.shape[0]

    def _wrap(self, r, dtype=None):
        dtype = dtype or self.dtype_t
        if isinstance(r, np.ndarray):
            return SymNd(r, dtype)
        return scalar_out(r, dtype)

    def __getitem__(self, idx):
        # fancy index with a symbolic integer index array:  x[ix, range(k)]
        if isinstance(idx, tuple) and len(idx) == 2 and isinstance(idx[0], SymNd):
            ix, cols = idx
            cols = list(cols)
            out = np.empty((len(cols),), dtype=object)
            for n_, c in enumerate(cols):
                out[n_] = select_by_index(self.a[:, c], ix.a[n_])
            return SymNd(out, self.dtype_t)
        if isinstance(idx, SymScalar):
            idx = int(idx)
        r = self.a[idx]
        return self._wrap(r if isinstance(r, np.ndarray) else r)

    def __invert__(self):
        return SymNd(vmap(T.mk_not, self.a), torch.bool)

    def argmax(self, axis=None):
        if self.dtype_t != torch.bool:
            raise Unsupported("argmax of a non-boolean symbolic array")
        if axis != 0 or self.a.ndim != 2:
            raise Unsupported("argmax only along axis 0 of a 2-D boolean array")
        n, k = self.a.shape
        out = np.empty((k,), dtype=object)
        for c in range(k):
            # index of the first True (0 if none), as numpy does
            r = z3.IntVal(0)
            for j in range(n - 1, -1, -1):
                r = T.mk_ite(self.a[j, c], z3.IntVal(j), r)
            out[c] = r
        return SymNd(out, torch.int64)

    def tolist(self):
        def rec(x):
            if isinstance(x, np.ndarray) and x.ndim > 0:
                return [rec(y) for y in x]
            return scalar_out(x if not isinstance(x, np.ndarray) else x[()], self.dtype_t)

        return rec(self.a)

    def __iter__(self):
        for i in range(len(self)):
            yield self[i]

    # -- numpy protocols ----------------------------------------------------------------------------------------
    def __array_ufunc__(self, ufunc, method, *inputs, **kwargs):
        if ufunc is np.isnan and method == "__call__":
            return SymNd(vmap(_isnan, self.a), torch.bool)
        if ufunc is np.invert and method == "__call__":
            return self.__invert__()
        raise Unsupported(f"numpy ufunc {ufunc.__name__} on a symbolic array")

    def __array_function__(self, func, types, args, kwargs):
        if func is np.nanmax:
            return _nanreduce(args[0], kwargs.get("axis", args[1] if len(args) > 1 else None), "max")
        if func is np.nanmean:
            return _nanreduce(args[0], kwargs.get("axis", args[1] if len(args) > 1 else None), "mean")
        if func is np.shape:
            return self.a.shape
        raise Unsupported(f"numpy function {func.__name__} on a symbolic array")


def _nanreduce(x, axis, kind):
    """numpy semantics of nanmax / nanmean along axis 0 of a 2-D float array (all-NaN column -> NaN)"""
    if axis != 0 or x.a.ndim != 2:
        raise Unsupported("nan-reductions only along axis 0 of a 2-D array")
    n, k = x.a.shape
    srt = x.a[0, 0].sort()
    nan = z3.fpNaN(srt)
    out = np.empty((k,), dtype=object)
    for c in range(k):
        col = [x.a[j, c] for j in range(n)]
        if kind == "max":
            acc = nan
            for v in col:
                acc = z3.If(z3.fpIsNaN(v), acc, z3.If(z3.fpIsNaN(acc), v, z3.If(z3.fpGEQ(v, acc), v, acc)))
            out[c] = acc
        else:
            s = z3.FPVal(0.0, srt)
            cnt = z3.FPVal(0.0, srt)
            for v in col:
                s = z3.If(z3.fpIsNaN(v), s, z3.fpAdd(T.RNE, s, v))
                cnt = z3.If(z3.fpIsNaN(v), cnt, z3.fpAdd(T.RNE, cnt, z3.FPVal(1.0, srt)))
            out[c] = z3.fpDiv(T.RNE, s, cnt)  # 0/0 = NaN when every entry is NaN
    return SymNd(out, x.dtype_t)


def sym_nd(name, shape, dtype=F64):
    srt = T.sort_of_dtype(dtype)
    out = np.empty(shape, dtype=object)
    for idx in np.ndindex(*shape):
        out[idx] = z3.Const(f"{name}[{','.join(map(str, idx))}]", srt)
    return SymNd(out, dtype)
