"""Numpy-side twin of the payload: a tiny array-like (not an ndarray subclass) carrying z3 terms, dispatched through numpy's
__array_function__ / __array_ufunc__ protocols.  Only what leaspy's numpy glue needs (constant-prediction benchmark)."""
from __future__ import annotations

import numpy as np
import torch
import z3

from . import terms as T
from .tensor import SymScalar, scalar_out, select_by_index, vmap
from .terms import Unsupported

F64 = torch.float64


def _isnan(x):
    return z3.fpIsNaN(x) if z3.is_fp(x) else z3.BoolVal(False)


class SymNd:
    __array_priority__ = 1000

    def __init__(self, terms, dtype=F64):
        self.a = np.asarray(terms, dtype=object)
        self.dtype_t = dtype

    # -- basic protocol ------------------------------------------------------------------------------------------
    @property
    def shape(self):
        return self.a.shape

    @property
    def ndim(self):
        return self.a.ndim

    def __len__(self):
        return self.a.shape[0]

    def _wrap(self, r, dtype=None):
        dtype = dtype or self.dtype_t
        if isinstance(r, np.ndarray):
            return SymNd(r, dtype)
        return scalar_out(r, dtype)

    def __getitem__(self, idx):
        if isinstance(idx, tuple) and any(i is None for i in idx) and not any(isinstance(i, (SymNd, SymScalar)) for i in idx):
            return SymNd(self.a[idx], self.dtype_t)  # x[:, None] and the like: pure reshaping
        # fancy index with a symbolic integer index array:  x[ix, range(k)]
        if isinstance(idx, tuple) and len(idx) == 2 and isinstance(idx[0], SymNd):
            ix, cols = idx
            cols = list(cols)
            out = np.empty((len(cols),), dtype=object)
            for n_, c in enumerate(cols):
                out[n_] = select_by_index(self.a[:, c], ix.a[n_])
            return SymNd(out, self.dtype_t)
        if isinstance(idx, SymScalar):
            if T.num_value(idx.term) is None:  # x[k] for a symbolic integer k: If-chain over axis 0
                r = select_by_index(self.a, idx.term)
                return self._wrap(r)
            idx = int(idx)
        r = self.a[idx]
        return self._wrap(r if isinstance(r, np.ndarray) else r)

    def __invert__(self):
        return SymNd(vmap(T.mk_not, self.a), torch.bool)

    def argmax(self, axis=None):
        if self.dtype_t != torch.bool:
            return self._float_argmax(axis)
        if axis != 0 or self.a.ndim != 2:
            raise Unsupported("argmax only along axis 0 of a 2-D boolean array")
        n, k = self.a.shape
        out = np.empty((k,), dtype=object)
        for c in range(k):
            # index of the first True (0 if none), as numpy does
            r = z3.IntVal(0)
            for j in range(n - 1, -1, -1):
                r = T.mk_ite(self.a[j, c], z3.IntVal(j), r)
            out[c] = r
        return SymNd(out, torch.int64)

    def _float_argmax(self, axis):
        """numpy semantics for floats: index of the first maximum, a NaN counting as the maximum (first NaN wins)"""
        if self.a.ndim == 1 and axis in (None, 0):
            cols = [list(self.a)]
        elif self.a.ndim == 2 and axis == 0:
            cols = [list(self.a[:, c]) for c in range(self.a.shape[1])]
        else:
            raise Unsupported("float argmax only of a 1-D array or along axis 0 of a 2-D array")
        out = np.empty((len(cols),), dtype=object)
        for c, col in enumerate(cols):
            r, best = z3.IntVal(0), col[0]
            for j in range(1, len(col)):
                better = z3.And(z3.Not(z3.fpIsNaN(best)), z3.Or(z3.fpIsNaN(col[j]), z3.fpGT(col[j], best)))
                r, best = z3.If(better, z3.IntVal(j), r), z3.If(better, col[j], best)
            out[c] = r
        if self.a.ndim == 1:
            return scalar_out(out[0], torch.int64)
        return SymNd(out, torch.int64)

    def _times_bool(self, other):
        """float array * boolean array (numpy casts True/False to 1.0/0.0): exact IEEE product without a multiplier"""
        if not (isinstance(other, SymNd) and {self.dtype_t, other.dtype_t} == {F64, torch.bool}):
            raise Unsupported("only float64 * bool products of symbolic arrays")
        x, b = (self, other) if self.dtype_t == F64 else (other, self)
        xa, ba = np.broadcast_arrays(x.a, b.a)
        srt = T.sort_of_dtype(F64)

        def one(v, t):
            zero = z3.If(z3.Or(z3.fpIsNaN(v), z3.fpIsInf(v)), z3.fpNaN(srt), z3.If(z3.fpIsNegative(v), z3.fpMinusZero(srt), z3.fpPlusZero(srt)))
            return z3.If(t, v, zero)

        out = np.empty(xa.shape, dtype=object)
        for idx in np.ndindex(*xa.shape):
            out[idx] = one(xa[idx], ba[idx])
        return SymNd(out, F64)

    __mul__ = _times_bool
    __rmul__ = _times_bool

    def tolist(self):
        def rec(x):
            if isinstance(x, np.ndarray) and x.ndim > 0:
                return [rec(y) for y in x]
            return scalar_out(x if not isinstance(x, np.ndarray) else x[()], self.dtype_t)

        return rec(self.a)

    def __iter__(self):
        for i in range(len(self)):
            yield self[i]

    # -- numpy protocols ----------------------------------------------------------------------------------------
    def __array_ufunc__(self, ufunc, method, *inputs, **kwargs):
        if ufunc is np.isnan and method == "__call__":
            return SymNd(vmap(_isnan, self.a), torch.bool)
        if ufunc is np.invert and method == "__call__":
            return self.__invert__()
        if ufunc is np.multiply and method == "__call__" and len(inputs) == 2 and all(isinstance(i, SymNd) for i in inputs):
            return inputs[0]._times_bool(inputs[1])
        raise Unsupported(f"numpy ufunc {ufunc.__name__} on a symbolic array")

    def __array_function__(self, func, types, args, kwargs):
        if func is np.nanmax:
            return _nanreduce(args[0], kwargs.get("axis", args[1] if len(args) > 1 else None), "max")
        if func is np.nanmean:
            return _nanreduce(args[0], kwargs.get("axis", args[1] if len(args) > 1 else None), "mean")
        if func is np.shape:
            return self.a.shape
        raise Unsupported(f"numpy function {func.__name__} on a symbolic array")


def _nanreduce(x, axis, kind):
    """numpy semantics of nanmax / nanmean along axis 0 of a 2-D float array (all-NaN column -> NaN)"""
    if axis != 0 or x.a.ndim != 2:
        raise Unsupported("nan-reductions only along axis 0 of a 2-D array")
    n, k = x.a.shape
    srt = x.a[0, 0].sort()
    nan = z3.fpNaN(srt)
    out = np.empty((k,), dtype=object)
    for c in range(k):
        col = [x.a[j, c] for j in range(n)]
        if kind == "max":
            acc = nan
            for v in col:
                acc = z3.If(z3.fpIsNaN(v), acc, z3.If(z3.fpIsNaN(acc), v, z3.If(z3.fpGEQ(v, acc), v, acc)))
            out[c] = acc
        else:
            s = z3.FPVal(0.0, srt)
            cnt = z3.FPVal(0.0, srt)
            for v in col:
                s = z3.If(z3.fpIsNaN(v), s, z3.fpAdd(T.RNE, s, v))
                cnt = z3.If(z3.fpIsNaN(v), cnt, z3.fpAdd(T.RNE, cnt, z3.FPVal(1.0, srt)))
            out[c] = z3.fpDiv(T.RNE, s, cnt)  # 0/0 = NaN when every entry is NaN
    return SymNd(out, x.dtype_t)


class NumpyProxy:
    """Stand-in for the `np` global of a module under analysis: everything is numpy's own, except that converting an already-float64 symbolic
    array to a float array is the identity (np.asarray / np.array / np.asanyarray never go through the dispatch protocols)."""

    def __init__(self, real=np):
        self._real = real

    def __getattr__(self, name):
        return getattr(self._real, name)

    def _conv(self, name):
        real = getattr(self._real, name)

        def f(x, *args, **kwargs):
            dtype = kwargs.get("dtype", args[0] if args else None)
            if isinstance(x, SymNd):
                if dtype in (None, float, np.float64) and x.dtype_t == F64:
                    return x
                raise Unsupported(f"np.{name} of a symbolic array to dtype {dtype}")
            return real(x, *args, **kwargs)

        return f

    @property
    def asarray(self):
        return self._conv("asarray")

    @property
    def array(self):
        return self._conv("array")

    @property
    def asanyarray(self):
        return self._conv("asanyarray")


def sym_nd(name, shape, dtype=F64):
    srt = T.sort_of_dtype(dtype)
    out = np.empty(shape, dtype=object)
    for idx in np.ndindex(*shape):
        out[idx] = z3.Const(f"{name}[{','.join(map(str, idx))}]", srt)
    return SymNd(out, dtype)
