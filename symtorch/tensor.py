"""SymTensor: a torch.Tensor subclass (real shape/dtype, no storage) carrying a numpy object array of z3 terms.
`__torch_function__` routes every torch function / Tensor method to a handler operating on the term arrays, so
that unmodified leaspy code runs on symbolic element values."""
from __future__ import annotations

import builtins
import operator
from fractions import Fraction

import numpy as np
import torch
import z3

from . import terms as T
from .terms import Unsupported

_DisableTF = torch._C.DisableTorchFunctionSubclass


# ------------------------------------------------------------------------------------------------
# the tensor class
# ------------------------------------------------------------------------------------------------
class SymTensor(torch.Tensor):
    @staticmethod
    def __new__(cls, sym, dtype=torch.float32):
        if not isinstance(sym, np.ndarray) or sym.dtype != object:
            a = np.empty(np.shape(sym), dtype=object)
            if a.ndim == 0:
                a[()] = sym
            else:
                a[...] = sym
            sym = a
        r = torch.Tensor._make_wrapper_subclass(cls, tuple(sym.shape), dtype=dtype)
        r.sym = sym
        r._masked_by = None
        return r

    @classmethod
    def __torch_dispatch__(cls, func, types, args=(), kwargs=None):
        raise Unsupported(f"aten dispatch reached without a handler: {func}")

    def __repr__(self):
        try:
            body = [str(x)[:60] for x in self.sym.reshape(-1)[:4]]
        except Exception:
            body = ["?"]
        return f"SymTensor(shape={tuple(self.sym.shape)}, dtype={self.dtype}, {body}...)"

    __str__ = __repr__

    def __format__(self, spec):
        return repr(self)

    def __deepcopy__(self, memo):
        return SymTensor(self.sym.copy(), self.dtype)

    def __reduce_ex__(self, proto):
        raise Unsupported("pickling a SymTensor")

    def __hash__(self):
        return id(self)

    @classmethod
    def __torch_function__(cls, func, types, args=(), kwargs=None):
        kwargs = kwargs or {}
        name = getattr(func, "__name__", None) or str(func)
        if name == "__get__":
            prop = getattr(getattr(func, "__self__", None), "__name__", "")
            h = PROPS.get(prop)
            if h is not None:
                return h(args[0])
            with _DisableTF():
                return func(*args, **kwargs)
        if name == "__set__":
            prop = getattr(getattr(func, "__self__", None), "__name__", "")
            if prop in ("requires_grad", "grad"):
                return None
            raise Unsupported(f"setting tensor attribute {prop}")
        h = HANDLERS.get(name)
        if h is not None:
            return h(*args, **kwargs)
        if name in PASSTHRU:
            with _DisableTF():
                return func(*args, **kwargs)
        return opaque(func, name, args, kwargs)


PASSTHRU = {
    "dim",
    "size",
    "ndimension",
    "is_floating_point",
    "__len__",
    "numel",
    "nelement",
    "is_complex",
    "element_size",
    "is_contiguous",
    "stride",
    "storage_offset",
    "get_device",
    "is_cuda",
    "is_sparse",
    "is_quantized",
    "requires_grad_",
    "is_same_size",
    "dim_order",
    "is_signed",
    "type",
    "is_nonzero_",
    "_is_view",
    "is_conj",
    "is_neg",
    "is_inference",
    "is_meta",
    "result_type",
    "is_tensor",
    "__dlpack__",
    "is_shared",
    "untyped_storage",
    "data_ptr",
    "_typed_storage",
    "_has_symbolic_sizes_strides",
}
HANDLERS = {}
PROPS = {}


def handler(*names):
    def deco(f):
        for n in names:
            HANDLERS[n] = f
        return f

    return deco


# ------------------------------------------------------------------------------------------------
# lifting helpers
# ------------------------------------------------------------------------------------------------
def _obj(shape):
    return np.empty(shape, dtype=object)


def lift_tensor(x: torch.Tensor) -> np.ndarray:
    """real tensor -> object array of numerals of the sort of its dtype"""
    if isinstance(x, SymTensor):
        return x.sym
    with _DisableTF():
        a = x.detach().cpu().numpy()
    out = _obj(a.shape)
    dt = x.dtype
    for idx in np.ndindex(a.shape):
        out[idx] = T.const_of(a[idx].item(), dt)
    return out


def is_sym(x):
    return isinstance(x, SymTensor)


def dtype_of(x):
    if isinstance(x, torch.Tensor):
        return x.dtype
    if isinstance(x, SymScalar):
        return x.dtype
    if isinstance(x, bool):
        return torch.bool
    if isinstance(x, int):
        return torch.int64
    if isinstance(x, float):
        return torch.get_default_dtype()
    if isinstance(x, (np.floating,)):
        return torch.float64
    if isinstance(x, (np.integer,)):
        return torch.int64
    if isinstance(x, np.bool_):
        return torch.bool
    raise Unsupported(f"dtype_of {type(x)}")


def _meta(x):
    """stand-in on the meta device, used to let torch compute result dtypes / shapes"""
    if isinstance(x, torch.Tensor):
        return torch.empty(tuple(x.shape), dtype=x.dtype, device="meta")
    if isinstance(x, SymScalar):
        return x.concrete_like()
    if isinstance(x, (np.generic,)):
        return x.item()
    return x


def result_dtype(*xs):
    ms = [_meta(x) for x in xs]
    if len(ms) == 1:
        return dtype_of(xs[0])
    r = torch.result_type(ms[0], ms[1])
    for m in ms[2:]:
        r = torch.result_type(torch.empty((), dtype=r, device="meta"), m)
    return r


def to_terms(x, dtype=None) -> np.ndarray:
    """anything tensor-like -> object array of terms, cast to `dtype` if given"""
    if isinstance(x, SymTensor):
        a, src = x.sym, x.dtype
    elif isinstance(x, torch.Tensor):
        a, src = lift_tensor(x), x.dtype
    elif isinstance(x, SymScalar):
        a = _obj(())
        a[()] = x.term
        src = x.dtype
    elif isinstance(x, (bool, int, float, np.generic)):
        if isinstance(x, np.generic):
            x = x.item()
        a = _obj(())
        if dtype is not None:
            # python scalars adopt the target dtype directly (torch "wrapped number" semantics)
            if dtype == torch.bool and not isinstance(x, bool):
                a[()] = T.const_of(x != 0, dtype)
            else:
                a[()] = T.const_of(x, dtype)
            return a
        src = dtype_of(x)
        a[()] = T.const_of(x, src)
    elif isinstance(x, z3.ExprRef):
        a = _obj(())
        a[()] = x
        return a
    else:
        raise Unsupported(f"to_terms {type(x)}")
    if dtype is not None and src != dtype:
        a = vmap(lambda t: T.cast(t, dtype, src), a)
    return a


def vmap(f, *arrays):
    """elementwise map with numpy broadcasting over object arrays"""
    arrays = [a if isinstance(a, np.ndarray) else np.asarray(a, dtype=object) for a in arrays]
    if len(arrays) == 1:
        a = arrays[0]
        out = _obj(a.shape)
        flat_in = a.reshape(-1)
        flat = out.reshape(-1)
        for i in range(flat_in.shape[0]):
            flat[i] = f(flat_in[i])
        return out
    bs = np.broadcast_arrays(*arrays)
    out = _obj(bs[0].shape)
    for idx in np.ndindex(out.shape):
        out[idx] = f(*[b[idx] for b in bs])
    return out


def mk(a: np.ndarray, dtype) -> SymTensor:
    return SymTensor(a, dtype)


# ------------------------------------------------------------------------------------------------
# SymScalar: python-level symbolic number (result of .item()/.tolist(), iteration of 0-d values, ...)
# ------------------------------------------------------------------------------------------------
def _np_elementwise(method):
    """binary operator of SymScalar extended to numpy (object) arrays on the other side: elementwise"""

    def f(self, o):
        if isinstance(o, np.ndarray):
            out = np.empty(o.shape, dtype=object)
            for idx in np.ndindex(*o.shape):
                out[idx] = method(self, o[idx])
            return out
        return method(self, o)

    return f


class SymScalar:
    __slots__ = ("term", "dtype")
    __array_priority__ = 1000
    __array_ufunc__ = None  # numpy defers `array <op> SymScalar` to the reflected method below

    def __init__(self, term, dtype):
        self.term = term
        self.dtype = dtype

    def concrete_like(self):
        if self.dtype == torch.bool:
            return True
        if self.dtype.is_floating_point:
            return 1.0
        return 1

    def _t(self):
        return SymTensor(np.array(self.term, dtype=object), self.dtype)

    def _wrap(self, r):
        if isinstance(r, SymTensor) and r.sym.ndim == 0:
            v = T.num_value(r.sym[()])
            if v is not None and not isinstance(v, Fraction):
                return v
            return SymScalar(r.sym[()], r.dtype)
        return r

    def _other(self, o):
        if isinstance(o, SymScalar):
            return o._t()
        return o

    @staticmethod
    def _ok(o):
        return isinstance(o, (SymScalar, int, float, bool, torch.Tensor, np.generic))

    def __add__(self, o):
        if not self._ok(o):
            return NotImplemented
        return self._wrap(torch.add(self._t(), self._other(o)))

    __radd__ = __add__

    def __sub__(self, o):
        if not self._ok(o):
            return NotImplemented
        return self._wrap(torch.sub(self._t(), self._other(o)))

    def __rsub__(self, o):
        if not self._ok(o):
            return NotImplemented
        return self._wrap(HANDLERS["__rsub__"](self._t(), self._other(o)))

    def __mul__(self, o):
        if not self._ok(o):
            return NotImplemented
        return self._wrap(torch.mul(self._t(), self._other(o)))

    __rmul__ = __mul__

    def __truediv__(self, o):
        if not self._ok(o):
            return NotImplemented
        return self._wrap(torch.div(self._t(), self._other(o)))

    def __rtruediv__(self, o):
        if not self._ok(o):
            return NotImplemented
        return self._wrap(HANDLERS["__rtruediv__"](self._t(), self._other(o)))

    def __neg__(self):
        return self._wrap(torch.neg(self._t()))

    def _int_terms(self, o):
        a = self.term
        b = o.term if isinstance(o, SymScalar) else (z3.IntVal(int(o)) if isinstance(o, int) and not isinstance(o, bool) else None)
        if b is None or not (z3.is_int(a) and z3.is_int(b)):
            raise Unsupported("floor division / modulo only on integer-sorted symbolic scalars (use mode 'F', where ints are z3 Ints)")
        return a, b

    def __floordiv__(self, o):
        a, b = self._int_terms(o)
        # python floor division; z3's integer div is euclidean: identical for a positive divisor, adjusted otherwise
        q = z3.If(b > 0, a / b, z3.If(a % b == 0, a / b, a / b - 1)) if True else a / b
        T.assume(b != 0) if False else None
        return SymScalar(q, torch.int64)

    def __mod__(self, o):
        a, b = self._int_terms(o)
        return SymScalar(z3.If(b > 0, a % b, z3.If(a % b == 0, z3.IntVal(0), a % b + b)), torch.int64)

    def __rfloordiv__(self, o):
        return SymScalar(z3.IntVal(int(o)), torch.int64).__floordiv__(self)

    def __rmod__(self, o):
        return SymScalar(z3.IntVal(int(o)), torch.int64).__mod__(self)

    def __pow__(self, e):
        return self._wrap(torch.pow(self._t(), self._other(e)))

    def __rpow__(self, b):
        return self._wrap(torch.pow(torch.tensor(float(b)) if not isinstance(b, SymScalar) else b._t(), self._t()))

    def __abs__(self):
        return self._wrap(torch.abs(self._t()))

    def __lt__(self, o):
        return self._wrap(torch.lt(self._t(), self._other(o)))

    def __le__(self, o):
        return self._wrap(torch.le(self._t(), self._other(o)))

    def __gt__(self, o):
        return self._wrap(torch.gt(self._t(), self._other(o)))

    def __ge__(self, o):
        return self._wrap(torch.ge(self._t(), self._other(o)))

    def __eq__(self, o):
        if not isinstance(o, (SymScalar, int, float, bool, torch.Tensor, np.generic)):
            return NotImplemented
        return self._wrap(torch.eq(self._t(), self._other(o)))

    def __ne__(self, o):
        if not isinstance(o, (SymScalar, int, float, bool, torch.Tensor, np.generic)):
            return NotImplemented
        return self._wrap(torch.ne(self._t(), self._other(o)))

    def __hash__(self):
        return id(self)

    def __bool__(self):
        t = self.term
        if not z3.is_bool(t):
            t = T.cast(t, torch.bool)
        return T.decide(t)

    def __float__(self):
        v = T.num_value(self.term)
        if v is None:
            raise Unsupported("float() of a symbolic scalar")
        return float(v)

    def __int__(self):
        v = T.num_value(self.term)
        if v is None:
            raise Unsupported("int() of a symbolic scalar")
        return int(v)

    __index__ = __int__

    def __repr__(self):
        return f"SymScalar({str(self.term)[:80]})"


def sym_int(x):
    """replacement for the builtin `int` in a module under test: truncation toward zero as a symbolic Int"""
    if isinstance(x, SymScalar):
        t = x.term
        if z3.is_int(t):
            return x
        r = z3.fpToReal(t) if z3.is_fp(t) else t
        return SymScalar(z3.If(r >= 0, z3.ToInt(r), -z3.ToInt(-r)), torch.int64)
    return builtins.int(x)


for _m in ("__eq__", "__ne__", "__lt__", "__le__", "__gt__", "__ge__", "__add__", "__radd__", "__sub__", "__rsub__", "__mul__", "__rmul__", "__truediv__", "__rtruediv__"):
    setattr(SymScalar, _m, _np_elementwise(getattr(SymScalar, _m)))


def scalar_out(term, dtype):
    """term -> python value when it is a numeral, SymScalar otherwise"""
    v = T.num_value(term)
    if v is not None:
        if isinstance(v, Fraction):
            return float(v)
        return v
    return SymScalar(term, dtype)


# ------------------------------------------------------------------------------------------------
# symbolic inputs
# ------------------------------------------------------------------------------------------------
def sym(name, shape=(), dtype=torch.float32, register=True) -> SymTensor:
    """fresh symbolic tensor; element names are `name[i,j]`"""
    s = T.sort_of_dtype(dtype)
    out = _obj(tuple(shape))
    for idx in np.ndindex(*shape):
        out[idx] = z3.Const(name + ("[" + ",".join(map(str, idx)) + "]" if idx else ""), s)
    t = SymTensor(out, dtype)
    if register:
        T.ctx().inputs[name] = t
    return t


def const(x, dtype=None) -> SymTensor:
    """real tensor / nested list -> SymTensor of numerals"""
    if not isinstance(x, torch.Tensor):
        x = torch.tensor(x, dtype=dtype)
    elif dtype is not None:
        x = x.to(dtype)
    return SymTensor(lift_tensor(x), x.dtype)


def concretize(t, model, default=0):
    """SymTensor -> real tensor under a z3 model"""
    if not isinstance(t, SymTensor):
        return t
    out = np.empty(t.sym.shape, dtype=object)
    for idx in np.ndindex(t.sym.shape):
        v = model.eval(t.sym[idx], model_completion=True)
        pv = T.num_value(v)
        if pv is None:
            # algebraic number (nlsat) -> approximate
            if z3.is_algebraic_value(v):
                pv = float(v.approx(20).as_fraction())
            else:
                raise Unsupported(f"cannot concretize {v}")
        out[idx] = float(pv) if isinstance(pv, Fraction) else pv
    if t.dtype == torch.bool:
        return torch.tensor(out.astype(bool).tolist(), dtype=torch.bool).reshape(t.sym.shape)
    if t.dtype.is_floating_point:
        return torch.tensor(np.array(out.tolist(), dtype=float), dtype=t.dtype).reshape(t.sym.shape)
    return torch.tensor(np.array(out.tolist(), dtype=np.int64), dtype=t.dtype).reshape(t.sym.shape)


# ------------------------------------------------------------------------------------------------
# elementwise binary / unary
# ------------------------------------------------------------------------------------------------
def _float_dtype(dt):
    return dt if dt.is_floating_point else torch.get_default_dtype()


def _binary(fn, *, out="same", floatify=False):
    def h(a, b, *, alpha=None, out_=None, **kw):
        if kw.get("out") is not None:
            raise Unsupported("out= argument")
        if alpha is not None and alpha != 1:
            b = torch.mul(b, alpha) if isinstance(b, torch.Tensor) else b * alpha
        dt = result_dtype(a, b)
        if floatify:
            dt = _float_dtype(dt)
        if out != "bool" and dt == torch.bool and fn in (T.mk_add, T.mk_sub, T.mk_mul):
            if fn is T.mk_sub:
                raise Unsupported("bool subtraction")
            A, B = to_terms(a, torch.bool), to_terms(b, torch.bool)
            return mk(vmap(T.mk_or if fn is T.mk_add else T.mk_and, A, B), torch.bool)
        A, B = to_terms(a, dt), to_terms(b, dt)
        R = vmap(fn, A, B)
        r = mk(R, torch.bool if out == "bool" else dt)
        for x in (a, b):
            if isinstance(x, SymTensor) and getattr(x, "_masked_by", None) is not None:
                r._masked_by = x._masked_by
        return r

    return h


def _reverse(h):
    return lambda a, b, **kw: h(b, a, **kw)


_add = _binary(T.mk_add)
_sub = _binary(T.mk_sub)
_mul = _binary(T.mk_mul)
_div = _binary(T.mk_div, floatify=True)
handler("add", "__add__", "__radd__", "__iadd__")(_add)
handler("mul", "__mul__", "__rmul__", "multiply", "__imul__")(_mul)
handler("sub", "__sub__", "subtract", "__isub__")(_sub)
handler("__rsub__", "rsub")(_reverse(_sub))
handler("div", "true_divide", "__truediv__", "divide", "__itruediv__")(_div)
handler("__rtruediv__", "__rdiv__")(_reverse(_div))


def _inplace(h):
    def f(a, b, **kw):
        if not isinstance(a, SymTensor):
            raise Unsupported("in-place update of a real tensor with symbolic values")
        r = h(a, b, **kw)
        a.sym[...] = to_terms(r, a.dtype)
        return a

    return f


handler("mul_")(_inplace(_mul))
handler("add_")(_inplace(_add))
handler("sub_")(_inplace(_sub))
handler("div_")(_inplace(_div))


def _cmp_bool_ok(op):
    def f(x, y):
        if z3.is_bool(x):
            if op == "eq":
                return x == y if not (T.is_num(x) and T.is_num(y)) else z3.BoolVal(T.num_value(x) == T.num_value(y))
            if op == "ne":
                return T.mk_not(f2(x, y))
            # order on bools: False < True
            xi, yi = T.cast(x, torch.int64), T.cast(y, torch.int64)
            return T.mk_cmp(op, xi, yi)
        if op == "eq":
            return T.mk_eq(x, y)
        if op == "ne":
            return T.mk_not(T.mk_eq(x, y))
        return T.mk_cmp(op, x, y)

    def f2(x, y):
        return x == y

    return f


for _op in ("lt", "le", "gt", "ge", "eq", "ne"):
    handler(_op, f"__{_op}__", {"lt": "less", "le": "less_equal", "gt": "greater", "ge": "greater_equal", "eq": "eq", "ne": "not_equal"}[_op])(
        _binary(_cmp_bool_ok(_op), out="bool")
    )


@handler("__invert__", "logical_not", "bitwise_not")
def _invert(a):
    if a.dtype != torch.bool:
        a = _to_dtype(a, torch.bool)
    return mk(vmap(T.mk_not, to_terms(a)), torch.bool)


@handler("__and__", "logical_and", "bitwise_and", "__rand__", "__iand__")
def _and(a, b):
    return mk(vmap(T.mk_and, to_terms(a, torch.bool), to_terms(b, torch.bool)), torch.bool)


@handler("__or__", "logical_or", "bitwise_or", "__ror__", "__ior__")
def _or(a, b):
    return mk(vmap(T.mk_or, to_terms(a, torch.bool), to_terms(b, torch.bool)), torch.bool)


@handler("__xor__", "logical_xor", "bitwise_xor")
def _xor(a, b):
    return mk(vmap(lambda x, y: z3.Xor(x, y), to_terms(a, torch.bool), to_terms(b, torch.bool)), torch.bool)


def _unary(fn, floatify=False):
    def h(a, **kw):
        dt = a.dtype
        A = to_terms(a)
        if floatify and not dt.is_floating_point:
            dt = torch.get_default_dtype()
            A = to_terms(a, dt)
        return mk(vmap(fn, A), dt)

    return h


handler("neg", "__neg__", "negative")(_unary(T.mk_neg))
handler("exp")(_unary(T.t_exp, True))
handler("log")(_unary(T.t_log, True))
handler("sqrt")(_unary(T.t_sqrt, True))
handler("sigmoid")(_unary(T.t_sigmoid, True))
handler("square")(_unary(lambda x: T.mk_mul(x, x)))
handler("lgamma")(_unary(lambda x: T.apply_fn("lgamma", (x,)), True))
handler("tanh")(_unary(lambda x: T.apply_fn("tanh", (x,)), True))
handler("log1p")(_unary(lambda x: T.apply_fn("log1p", (x,)), True))
handler("expm1")(_unary(lambda x: T.apply_fn("expm1", (x,)), True))
handler("reciprocal")(_unary(lambda x: T.mk_div(T._mk_num_like(1, x), x), True))


def _t_abs(x):
    if z3.is_fp(x):
        return z3.fpAbs(x)
    v = T.num_value(x)
    if v is not None:
        return T._mk_num_like(abs(v), x)
    return z3.If(x >= 0, x, -x)


handler("abs", "__abs__", "absolute")(_unary(_t_abs))


def _t_sign(x):
    one, mone, zero = T._mk_num_like(1, x), T._mk_num_like(-1, x), T._mk_num_like(0, x)
    v = T.num_value(x)
    if v is not None:
        return one if v > 0 else (mone if v < 0 else zero)
    pos, neg = T.mk_cmp("gt", x, zero), T.mk_cmp("lt", x, zero)
    # fold to a constant when the sign is entailed by the path condition (removes an ite from nonlinear goals)
    if T.ctx().mode == "R":
        if T.entails(pos, 3000):
            return one
        if T.entails(neg, 3000):
            return mone
    if z3.is_fp(x):
        return z3.If(z3.fpIsNaN(x), x, z3.If(pos, one, z3.If(neg, mone, zero)))
    return z3.If(pos, one, z3.If(neg, mone, zero))


handler("sign", "sgn")(_unary(_t_sign))


@handler("pow", "__pow__")
def _pow(a, e):
    if isinstance(e, (int, float)) and not isinstance(e, bool):
        dt = a.dtype if (a.dtype.is_floating_point or isinstance(e, int)) else torch.get_default_dtype()
        if isinstance(e, float) and not a.dtype.is_floating_point:
            dt = torch.get_default_dtype()
        A = to_terms(a, dt)
        return mk(vmap(lambda x: T.t_pow(x, e), A), dt)
    dt = _float_dtype(result_dtype(a, e))
    A, E = to_terms(a, dt), to_terms(e, dt)
    return mk(vmap(lambda x, y: T.t_pow(x, T.num_value(y) if (T.is_num(y) and float(T.num_value(y)).is_integer() and abs(T.num_value(y)) <= 8) else y), A, E), dt)


@handler("__rpow__")
def _rpow(a, b):
    dt = _float_dtype(result_dtype(a, b))
    A, B = to_terms(a, dt), to_terms(b, dt)
    return mk(vmap(lambda e, base: T.t_pow(base, e), A, B), dt)


# isnan & co
def _t_isnan(x):
    if z3.is_fp(x):
        v = T.num_value(x)
        if v is not None:
            return z3.BoolVal(v != v)
        return z3.fpIsNaN(x)
    return z3.BoolVal(False)


def _t_isinf(x):
    if z3.is_fp(x):
        return z3.fpIsInf(x)
    return z3.BoolVal(False)


@handler("isnan")
def _isnan(a):
    return mk(vmap(_t_isnan, to_terms(a)), torch.bool)


@handler("isinf")
def _isinf(a):
    return mk(vmap(_t_isinf, to_terms(a)), torch.bool)


@handler("isfinite")
def _isfinite(a):
    return mk(vmap(lambda x: T.mk_not(T.mk_or(_t_isnan(x), _t_isinf(x))), to_terms(a)), torch.bool)


# ------------------------------------------------------------------------------------------------
# dtype conversion & copies
# ------------------------------------------------------------------------------------------------
def _to_dtype(a, dt):
    if a.dtype == dt:
        return a
    return mk(to_terms(a, dt), dt)


@handler("to")
def _to(a, *args, **kw):
    dt = kw.get("dtype")
    for x in args:
        if isinstance(x, torch.dtype):
            dt = x
        elif isinstance(x, torch.Tensor):
            dt = x.dtype
    if dt is None:
        return a
    return _to_dtype(a, dt)


handler("float")(lambda a, **kw: _to_dtype(a, torch.float32))
handler("double")(lambda a, **kw: _to_dtype(a, torch.float64))
handler("bool")(lambda a, **kw: _to_dtype(a, torch.bool))
handler("long")(lambda a, **kw: _to_dtype(a, torch.int64))
handler("int")(lambda a, **kw: _to_dtype(a, torch.int32))
handler("type_as")(lambda a, b: _to_dtype(a, b.dtype))


@handler("clone", "detach", "contiguous", "cpu", "detach_", "requires_grad_", "__deepcopy__", "alias", "pin_memory")
def _clone(a, *args, **kw):
    return mk(a.sym.copy(), a.dtype)


PROPS["data"] = lambda a: mk(a.sym, a.dtype)
PROPS["T"] = lambda a: mk(a.sym.T.copy(), a.dtype)
PROPS["mT"] = lambda a: mk(np.swapaxes(a.sym, -1, -2).copy(), a.dtype)
PROPS["real"] = lambda a: a
PROPS["grad"] = lambda a: None
PROPS["requires_grad"] = lambda a: False
PROPS["is_leaf"] = lambda a: True
PROPS["grad_fn"] = lambda a: None


# ------------------------------------------------------------------------------------------------
# shape ops
# ------------------------------------------------------------------------------------------------
def _shape_args(shape):
    if len(shape) == 1 and isinstance(shape[0], (tuple, list, torch.Size)):
        shape = tuple(shape[0])
    return tuple(int(s) for s in shape)


@handler("view", "reshape")
def _view(a, *shape, **kw):
    if "shape" in kw:
        shape = (kw["shape"],)
    if len(shape) == 1 and isinstance(shape[0], torch.dtype):
        raise Unsupported("view(dtype)")
    return mk(a.sym.reshape(_shape_args(shape)), a.dtype)


@handler("flatten")
def _flatten(a, start_dim=0, end_dim=-1):
    shp = a.sym.shape
    nd = len(shp)
    if nd == 0:
        return mk(a.sym.reshape(1), a.dtype)
    s, e = start_dim % nd, end_dim % nd
    new = shp[:s] + (int(np.prod(shp[s : e + 1])),) + shp[e + 1 :]
    return mk(a.sym.reshape(new), a.dtype)


@handler("expand", "broadcast_to")
def _expand(a, *shape, **kw):
    if "size" in kw:
        shape = (kw["size"],)
    shape = list(_shape_args(shape))
    src = a.sym.shape
    off = len(shape) - len(src)
    for i, s in enumerate(shape):
        if s == -1:
            shape[i] = src[i - off]
    return mk(np.broadcast_to(a.sym, tuple(shape)).copy(), a.dtype)


@handler("expand_as")
def _expand_as(a, b):
    return _expand(a, tuple(b.shape))


@handler("unsqueeze")
def _unsqueeze(a, dim):
    return mk(np.expand_dims(a.sym, dim if dim >= 0 else dim + a.sym.ndim + 1), a.dtype)


@handler("squeeze")
def _squeeze(a, dim=None):
    if dim is None:
        return mk(np.squeeze(a.sym), a.dtype)
    dims = (dim,) if isinstance(dim, int) else tuple(dim)
    dims = tuple(d for d in dims if a.sym.shape[d] == 1)
    return mk(np.squeeze(a.sym, axis=dims) if dims else a.sym, a.dtype)


@handler("t")
def _t(a):
    return mk(a.sym.T.copy(), a.dtype)


@handler("transpose", "swapaxes", "swapdims")
def _transpose(a, d0, d1):
    return mk(np.swapaxes(a.sym, d0, d1).copy(), a.dtype)


@handler("permute")
def _permute(a, *dims):
    return mk(np.transpose(a.sym, _shape_args(dims)).copy(), a.dtype)


@handler("movedim", "moveaxis")
def _movedim(a, s, d):
    return mk(np.moveaxis(a.sym, s, d).copy(), a.dtype)


@handler("repeat")
def _repeat(a, *reps):
    reps = _shape_args(reps)
    return mk(np.tile(a.sym, reps), a.dtype)


@handler("repeat_interleave")
def _repeat_interleave(a, repeats, dim=None):
    if isinstance(repeats, torch.Tensor):
        repeats = _concrete_np(repeats)
    return mk(np.repeat(a.sym, repeats, axis=dim), a.dtype)


@handler("flip")
def _flip(a, dims):
    return mk(np.flip(a.sym, axis=tuple(dims) if not isinstance(dims, int) else dims).copy(), a.dtype)


@handler("cat", "concat", "concatenate")
def _cat(ts, dim=0, **kw):
    dim = kw.get("axis", dim)
    dt = result_dtype(*ts) if len(ts) > 1 else ts[0].dtype
    return mk(np.concatenate([to_terms(t, dt) for t in ts], axis=dim), dt)


@handler("stack")
def _stack(ts, dim=0, **kw):
    ts = list(ts)
    dt = result_dtype(*ts) if len(ts) > 1 else ts[0].dtype
    return mk(np.stack([to_terms(t, dt) for t in ts], axis=dim), dt)


@handler("unbind")
def _unbind(a, dim=0):
    return tuple(mk(np.take(a.sym, i, axis=dim), a.dtype) for i in range(a.sym.shape[dim]))


@handler("__iter__")
def _iter(a):
    if a.sym.ndim == 0:
        raise TypeError("iteration over a 0-d tensor")
    return iter([mk(a.sym[i], a.dtype) for i in range(a.sym.shape[0])])


@handler("split", "chunk")
def _split(a, size, dim=0):
    raise Unsupported("split/chunk")


@handler("diag")
def _diag(a, diagonal=0):
    if a.sym.ndim == 1:
        n = a.sym.shape[0]
        out = _obj((n, n))
        zero = T.const_of(0, a.dtype)
        for i in range(n):
            for j in range(n):
                out[i, j] = a.sym[i] if i == j else zero
        return mk(out, a.dtype)
    return mk(np.diagonal(a.sym, diagonal).copy(), a.dtype)


@handler("diagonal")
def _diagonal(a, offset=0, dim1=0, dim2=1):
    return mk(np.diagonal(a.sym, offset, dim1, dim2).copy(), a.dtype)


def _concrete_np(idx):
    """index tensor -> numpy (must be concrete)"""
    if isinstance(idx, SymTensor):
        vals = vmap(T.num_value, idx.sym)
        if any(v is None for v in vals.reshape(-1)):
            raise Unsupported("indexing with a symbolic index / mask (data-dependent shape)")
        return np.array(vals.tolist(), dtype=bool if idx.dtype == torch.bool else np.int64)
    if isinstance(idx, torch.Tensor):
        with _DisableTF():
            return idx.detach().cpu().numpy()
    return idx


def _norm_index(idx):
    if isinstance(idx, tuple):
        return tuple(_norm_index1(i) for i in idx)
    return _norm_index1(idx)


def _norm_index1(i):
    if isinstance(i, torch.Tensor):
        r = _concrete_np(i)
        if r.ndim == 0 and r.dtype != bool:
            return int(r)
        return r
    if isinstance(i, SymScalar):
        return int(i)
    if isinstance(i, list):
        return [_norm_index1(j) for j in i]
    return i


def _symbolic_mask(idx, shape):
    """idx is a boolean SymTensor with non-constant entries and the shape of the indexed tensor"""
    return isinstance(idx, SymTensor) and idx.dtype == torch.bool and tuple(idx.sym.shape) == tuple(shape) and any(T.num_value(x) is None for x in idx.sym.reshape(-1))


def _symbolic_int_index(i):
    return isinstance(i, SymTensor) and i.dtype in (torch.int64, torch.int32) and i.sym.ndim == 1 and any(T.num_value(x) is None for x in i.sym.reshape(-1))


@handler("__getitem__")
def _getitem(a, idx):
    if isinstance(idx, tuple) and len(idx) == 2 and _symbolic_int_index(idx[0]):
        # value[argmin_index, arange(n)]: pick, for each column position, the row given by a symbolic index (If-chain)
        cols = _concrete_np(idx[1])
        n = idx[0].sym.shape[0]
        if cols.shape != (n,):
            raise Unsupported("advanced indexing with a symbolic index: unsupported layout")
        rows = [select_by_index(a.sym[:, int(cols[i])], idx[0].sym[i]) for i in range(n)]
        return mk(np.array([r if isinstance(r, np.ndarray) else np.array(r, dtype=object) for r in rows], dtype=object).reshape((n,) + a.sym.shape[2:]), a.dtype)
    if _symbolic_mask(idx, a.sym.shape):
        # data-dependent selection `a[mask]`: kept as a full-shape *masked view*; only elementwise updates followed by
        # `a[mask] = view` (the pattern `a[mask] *= c`) are supported on it
        v = mk(a.sym.copy(), a.dtype)
        v._masked_by = idx.sym
        return v
    r = a.sym[_norm_index(idx)]
    if not isinstance(r, np.ndarray):
        return mk(np.array(r, dtype=object), a.dtype)
    return mk(r.copy(), a.dtype)


@handler("__setitem__")
def _setitem(a, idx, value):
    if not isinstance(a, SymTensor):
        raise Unsupported(
            "in-place write of a symbolic value into a real tensor (the harness must provide a symbolic "
            "container via the factory stubs)"
        )
    if isinstance(idx, tuple) and len(idx) >= 1 and all(i is Ellipsis for i in idx[1:]) and isinstance(idx[0], SymTensor) and idx[0].dtype == torch.bool:
        idx = idx[0]  # t[mask, ...] = v  with a full-shape mask
    if _symbolic_mask(idx, a.sym.shape):
        v = to_terms(value, a.dtype)
        if isinstance(value, SymTensor) and getattr(value, "_masked_by", None) is not None:
            if not all(x.eq(y) for x, y in zip(value._masked_by.reshape(-1), idx.sym.reshape(-1))):
                raise Unsupported("masked view written back under a different mask")
        v = np.broadcast_to(v, a.sym.shape)
        a.sym[...] = vmap(T.mk_ite, idx.sym, v, a.sym)
        return None
    idx = _norm_index(idx)
    v = to_terms(value, a.dtype)
    a.sym[idx] = v if v.ndim else v[()]
    return None


@handler("index_put", "index_put_")
def _index_put(a, indices, values, accumulate=False):
    A = to_terms(a).copy()
    dt = a.dtype
    V = to_terms(values, dt)
    idx = tuple(_norm_index1(i) for i in indices)
    if accumulate:
        # duplicates in idx would need scatter-add semantics; indices used by leaspy are unique
        sel = A[idx]
        if isinstance(sel, np.ndarray):
            A[idx] = vmap(T.mk_add, sel, np.broadcast_to(V, np.shape(sel)))
        else:
            A[idx] = T.mk_add(sel, V.reshape(-1)[0] if V.size == 1 else V[()])
    else:
        A[idx] = V if V.ndim else V[()]
    return mk(A, dt)


@handler("index_select")
def _index_select(a, dim, index):
    return mk(np.take(a.sym, _concrete_np(index), axis=dim), a.dtype)


@handler("gather")
def _gather(a, dim, index):
    idx = _concrete_np(index)
    return mk(np.take_along_axis(a.sym, idx, axis=dim), a.dtype)


@handler("masked_fill", "masked_fill_")
def _masked_fill(a, mask, value):
    dt = a.dtype
    A, M, V = to_terms(a), to_terms(mask, torch.bool), to_terms(value, dt)
    return mk(vmap(lambda x, m, v: T.mk_ite(m, v, x), A, M, V), dt)


@handler("where")
def _where(c, a=None, b=None):
    if a is None:
        raise Unsupported("where(cond) with data-dependent shape")
    dt = result_dtype(a, b)
    C, A, B = to_terms(c, torch.bool), to_terms(a, dt), to_terms(b, dt)
    return mk(vmap(T.mk_ite, C, A, B), dt)


def _t_max(x, y):
    nb = T._both_num(x, y)
    if nb and not (nb[0] != nb[0] or nb[1] != nb[1]):
        return x if nb[0] >= nb[1] else y
    if z3.is_fp(x):
        # torch.maximum / clamp propagate NaN
        return z3.If(z3.fpIsNaN(x), x, z3.If(z3.fpIsNaN(y), y, z3.If(z3.fpGEQ(x, y), x, y)))
    return z3.If(x >= y, x, y)


def _t_min(x, y):
    nb = T._both_num(x, y)
    if nb and not (nb[0] != nb[0] or nb[1] != nb[1]):
        return x if nb[0] <= nb[1] else y
    if z3.is_fp(x):
        return z3.If(z3.fpIsNaN(x), x, z3.If(z3.fpIsNaN(y), y, z3.If(z3.fpLEQ(x, y), x, y)))
    return z3.If(x <= y, x, y)


@handler("clamp", "clip", "clamp_")
def _clamp(a, min=None, max=None):
    dt = a.dtype
    R = to_terms(a)
    if min is not None:
        R = vmap(_t_max, R, to_terms(min, dt))
    if max is not None:
        R = vmap(_t_min, R, to_terms(max, dt))
    return mk(R, dt)


handler("clamp_min")(lambda a, m: _clamp(a, min=m))
handler("clamp_max")(lambda a, m: _clamp(a, max=m))
handler("maximum")(_binary(_t_max))
handler("minimum")(_binary(_t_min))


@handler("nan_to_num")
def _nan_to_num(a, nan=0.0, posinf=None, neginf=None):
    if T.ctx().mode == "R":
        return a
    if posinf is not None or neginf is not None:
        raise Unsupported("nan_to_num with inf replacement")
    dt = a.dtype
    big = torch.finfo(dt).max
    nanv = T.const_of(nan, dt)

    def f(x):
        return z3.If(
            z3.fpIsNaN(x), nanv, z3.If(z3.fpIsInf(x), z3.If(z3.fpIsNegative(x), T.const_of(-big, dt), T.const_of(big, dt)), x)
        )

    return mk(vmap(f, to_terms(a)), dt)


# ------------------------------------------------------------------------------------------------
# reductions
# ------------------------------------------------------------------------------------------------
def _axes(a, dim):
    nd = a.ndim
    if dim is None:
        return tuple(range(nd))
    if isinstance(dim, int):
        dim = (dim,)
    dim = tuple(d % nd if nd else 0 for d in dim)
    if len(dim) == 0:
        return tuple(range(nd))  # torch: dim=() reduces over everything
    return dim


def _reduce(A: np.ndarray, axes, f, init, keepdim):
    """left fold of f over the given axes (row-major order)"""
    nd = A.ndim
    axes = tuple(sorted(set(axes)))
    keep = [i for i in range(nd) if i not in axes]
    out_shape = tuple(A.shape[i] for i in keep)
    out = _obj(out_shape)
    red_shape = tuple(A.shape[i] for i in axes)
    for oidx in np.ndindex(*out_shape):
        acc = init
        for ridx in np.ndindex(*red_shape):
            full = [None] * nd
            for k, i in enumerate(keep):
                full[i] = oidx[k]
            for k, i in enumerate(axes):
                full[i] = ridx[k]
            x = A[tuple(full)]
            acc = x if acc is None else f(acc, x)
        out[oidx] = acc
    if keepdim:
        shp = tuple(1 if i in axes else A.shape[i] for i in range(nd))
        out = out.reshape(shp)
    return out


@handler("sum", "nansum")
def _sum(a, dim=None, keepdim=False, dtype=None, **kw):
    if "axis" in kw:
        dim = kw["axis"]
    dt = dtype or (a.dtype if a.dtype.is_floating_point else torch.int64)
    A = to_terms(a, dt)
    R = _reduce(A, _axes(A, dim), T.mk_add, T.const_of(0, dt), keepdim)
    return mk(R, dt)


@handler("prod")
def _prod(a, dim=None, keepdim=False, dtype=None):
    dt = dtype or (a.dtype if a.dtype.is_floating_point else torch.int64)
    A = to_terms(a, dt)
    return mk(_reduce(A, _axes(A, dim), T.mk_mul, T.const_of(1, dt), keepdim), dt)


def _count(A, axes):
    n = 1
    for i in set(axes):
        n *= A.shape[i]
    return n


@handler("mean")
def _mean(a, dim=None, keepdim=False, dtype=None, **kw):
    if "axis" in kw:
        dim = kw["axis"]
    if not a.dtype.is_floating_point and dtype is None:
        raise RuntimeError("mean(): could not infer output dtype. Input dtype must be floating point")
    dt = dtype or a.dtype
    A = to_terms(a, dt)
    axes = _axes(A, dim)
    n = _count(A, axes)
    S = _reduce(A, axes, T.mk_add, T.const_of(0, dt), keepdim)
    if n == 0:
        raise Unsupported("mean over an empty axis")
    nn = T.const_of(n, dt)
    return mk(vmap(lambda s: T.mk_div(s, nn), S), dt)


def _var_impl(a, dim, correction, keepdim):
    dt = a.dtype
    A = to_terms(a, dt)
    axes = _axes(A, dim)
    n = _count(A, axes)
    S = _reduce(A, axes, T.mk_add, T.const_of(0, dt), True)
    nn = T.const_of(n, dt)
    M = vmap(lambda s: T.mk_div(s, nn), S)
    D = vmap(lambda x, m: T.mk_mul(T.mk_sub(x, m), T.mk_sub(x, m)), A, M)
    SS = _reduce(D, axes, T.mk_add, T.const_of(0, dt), keepdim)
    if n - correction <= 0:
        raise Unsupported("variance with non-positive degrees of freedom")
    den = T.const_of(n - correction, dt)
    return vmap(lambda s: T.mk_div(s, den), SS)


@handler("var")
def _var(a, dim=None, unbiased=True, keepdim=False, correction=None, **kw):
    if isinstance(dim, bool):
        unbiased, dim = dim, None
    corr = correction if correction is not None else (1 if unbiased else 0)
    return mk(_var_impl(a, dim, corr, keepdim), a.dtype)


@handler("std")
def _std(a, dim=None, unbiased=True, keepdim=False, correction=None, **kw):
    if isinstance(dim, bool):
        unbiased, dim = dim, None
    corr = correction if correction is not None else (1 if unbiased else 0)
    return mk(vmap(T.t_sqrt, _var_impl(a, dim, corr, keepdim)), a.dtype)


@handler("any")
def _any(a, dim=None, keepdim=False):
    A = to_terms(a, torch.bool)
    return mk(_reduce(A, _axes(A, dim), T.mk_or, z3.BoolVal(False), keepdim), torch.bool)


@handler("count_nonzero")
def _count_nonzero(a, dim=None):
    B = to_terms(a, torch.bool)
    one, zero = T.const_of(1, torch.int64), T.const_of(0, torch.int64)
    A = vmap(lambda b: T.mk_ite(b, one, zero), B)
    return mk(_reduce(A, _axes(A, dim), T.mk_add, zero, False), torch.int64)


@handler("all")
def _all(a, dim=None, keepdim=False):
    A = to_terms(a, torch.bool)
    return mk(_reduce(A, _axes(A, dim), T.mk_and, z3.BoolVal(True), keepdim), torch.bool)


def _arg_reduce(A, axis, better):
    """index (Int term) of the first best element along axis"""
    moved = np.moveaxis(A, axis, -1)
    out_v = _obj(moved.shape[:-1])
    out_i = _obj(moved.shape[:-1])
    for idx in np.ndindex(*moved.shape[:-1]):
        bv, bi = moved[idx][0], T.const_of(0, torch.int64)
        for k in range(1, moved.shape[-1]):
            x = moved[idx][k]
            c = better(x, bv)
            bv = T.mk_ite(c, x, bv)
            bi = T.mk_ite(c, T.const_of(k, torch.int64), bi)
        out_v[idx] = bv
        out_i[idx] = bi
    return out_v, out_i


def _better_min(x, b):
    if z3.is_fp(x):
        # torch: NaN wins (first NaN)
        return z3.And(z3.Not(z3.fpIsNaN(b)), z3.Or(z3.fpIsNaN(x), z3.fpLT(x, b)))
    return T.mk_cmp("lt", x, b)


def _better_max(x, b):
    if z3.is_fp(x):
        return z3.And(z3.Not(z3.fpIsNaN(b)), z3.Or(z3.fpIsNaN(x), z3.fpGT(x, b)))
    return T.mk_cmp("gt", x, b)


def _minmax(better):
    def h(a, dim=None, keepdim=False, **kw):
        if isinstance(dim, torch.Tensor):
            raise Unsupported("binary min/max via method")
        A = to_terms(a)
        if dim is None:
            v, _ = _arg_reduce(A.reshape(-1), 0, better)
            return mk(v, a.dtype)
        v, i = _arg_reduce(A, dim, better)
        if keepdim:
            v, i = np.expand_dims(v, dim), np.expand_dims(i, dim)
        return torch.return_types.min((mk(v, a.dtype), mk(i, torch.int64))) if False else (mk(v, a.dtype), mk(i, torch.int64))

    return h


handler("min", "amin")(_minmax(_better_min))
handler("max", "amax")(_minmax(_better_max))


def _argminmax(better):
    def h(a, dim=None, keepdim=False):
        A = to_terms(a)
        if dim is None:
            _, i = _arg_reduce(A.reshape(-1), 0, better)
            return mk(i, torch.int64)
        _, i = _arg_reduce(A, dim, better)
        if keepdim:
            i = np.expand_dims(i, dim)
        return mk(i, torch.int64)

    return h


handler("argmin")(_argminmax(_better_min))
handler("argmax")(_argminmax(_better_max))


def select_by_index(values: np.ndarray, index_term):
    """values[k] for a symbolic Int k: If-chain over the concrete axis 0"""
    n = values.shape[0]
    v = T.num_value(index_term)
    if v is not None:
        return values[int(v)]
    rest = values[n - 1]
    for k in range(n - 2, -1, -1):
        rest = vmap(lambda a, b, k=k: T.mk_ite(index_term == k, a, b), values[k], rest) if isinstance(rest, np.ndarray) else T.mk_ite(index_term == k, values[k], rest)
    return rest


@handler("norm")
def _norm(a, p=2, dim=None, keepdim=False, **kw):
    if p not in (2, "fro", None, 2.0):
        raise Unsupported(f"norm p={p}")
    dt = a.dtype
    A = to_terms(a, dt)
    SQ = vmap(lambda x: T.mk_mul(x, x), A)
    S = _reduce(SQ, _axes(A, dim), T.mk_add, T.const_of(0, dt), keepdim)
    return mk(vmap(T.t_sqrt, S), dt)


def obj_matmul(A, B, dt):
    a1, b1 = A.ndim == 1, B.ndim == 1
    if a1:
        A = A[None, :]
    if b1:
        B = B[:, None]
    n, k = A.shape[-2:]
    k2, m = B.shape[-2:]
    if k != k2:
        raise RuntimeError(f"mat1 and mat2 shapes cannot be multiplied ({A.shape} and {B.shape})")
    batch = np.broadcast_shapes(A.shape[:-2], B.shape[:-2])
    A = np.broadcast_to(A, batch + (n, k))
    B = np.broadcast_to(B, batch + (k, m))
    out = _obj(batch + (n, m))
    for bidx in np.ndindex(*batch):
        for i in range(n):
            for j in range(m):
                acc = T.const_of(0, dt)
                for l in range(k):
                    acc = T.mk_add(acc, T.mk_mul(A[bidx + (i, l)], B[bidx + (l, j)]))
                out[bidx + (i, j)] = acc
    if a1:
        out = out[..., 0, :]
    if b1:
        out = out[..., 0]
    return out


@handler("matmul", "__matmul__", "mm", "mv", "bmm", "dot")
def _matmul(a, b):
    dt = result_dtype(a, b)
    return mk(obj_matmul(to_terms(a, dt), to_terms(b, dt), dt), dt)


@handler("__rmatmul__")
def _rmatmul(a, b):
    return _matmul(b, a)


@handler("outer", "ger")
def _outer(a, b):
    dt = result_dtype(a, b)
    return mk(vmap(T.mk_mul, to_terms(a, dt)[:, None], to_terms(b, dt)[None, :]), dt)


@handler("cumsum")
def _cumsum(a, dim, **kw):
    dt = a.dtype if a.dtype.is_floating_point else torch.int64
    A = np.moveaxis(to_terms(a, dt).copy(), dim, 0)
    for k in range(1, A.shape[0]):
        A[k] = vmap(T.mk_add, A[k - 1], A[k])
    return mk(np.moveaxis(A, 0, dim).copy(), dt)


@handler("softmax")
def _softmax(a, dim=-1, **kw):
    dt = _float_dtype(a.dtype)
    A = to_terms(a, dt)
    E = vmap(T.t_exp, A)
    S = _reduce(E, _axes(E, dim), T.mk_add, T.const_of(0, dt), True)
    return mk(vmap(T.mk_div, E, S), dt)


@handler("logsumexp")
def _logsumexp(a, dim, keepdim=False):
    dt = _float_dtype(a.dtype)
    E = vmap(T.t_exp, to_terms(a, dt))
    S = _reduce(E, _axes(E, dim), T.mk_add, T.const_of(0, dt), keepdim)
    return mk(vmap(T.t_log, S), dt)


# ------------------------------------------------------------------------------------------------
# python-protocol methods
# ------------------------------------------------------------------------------------------------
@handler("__bool__")
def _bool(a):
    if a.sym.size != 1:
        raise RuntimeError("Boolean value of Tensor with more than one value is ambiguous")
    t = a.sym.reshape(-1)[0]
    if not z3.is_bool(t):
        t = T.cast(t, torch.bool)
    return T.decide(t)


@handler("equal")
def _equal(a, b):
    if tuple(a.shape) != tuple(b.shape):
        return False
    dt = result_dtype(a, b)
    A, B = to_terms(a, dt), to_terms(b, dt)
    conj = T.mk_and(*[(x == y if z3.is_bool(x) else T.mk_eq(x, y)) for x, y in zip(A.reshape(-1), B.reshape(-1))])
    return T.decide(conj)


@handler("allclose")
def _allclose(a, b, rtol=1e-5, atol=1e-8, **kw):
    # |a - b| <= atol + rtol * |b| elementwise; returned as a 0-d boolean tensor (forks only if the caller branches on it)
    if tuple(np.broadcast_shapes(tuple(a.shape), tuple(b.shape))) is None:
        return False
    d = torch.abs(torch.sub(a, b))
    bound = torch.add(torch.mul(torch.abs(b), rtol), atol)
    return torch.le(d, bound).all()


@handler("item")
def _item(a):
    if a.sym.size != 1:
        raise RuntimeError("a Tensor with more than one element cannot be converted to Scalar")
    return scalar_out(a.sym.reshape(-1)[0], a.dtype)


@handler("__float__")
def _pyfloat(a):
    v = T.num_value(a.sym.reshape(-1)[0])
    if v is None:
        raise Unsupported("float() of a symbolic tensor element")
    return float(v)


@handler("__int__", "__index__")
def _pyint(a):
    v = T.num_value(a.sym.reshape(-1)[0])
    if v is None:
        raise Unsupported("int() of a symbolic tensor element")
    return int(v)


@handler("tolist")
def _tolist(a):
    def rec(x):
        if isinstance(x, np.ndarray) and x.ndim > 0:
            return [rec(y) for y in x]
        return scalar_out(x if not isinstance(x, np.ndarray) else x[()], a.dtype)

    return rec(a.sym)


@handler("numpy", "__array__")
def _numpy(a, *args, **kw):
    out = _obj(a.sym.shape)
    for idx in np.ndindex(a.sym.shape):
        out[idx] = scalar_out(a.sym[idx], a.dtype)
    return out


def _like(a, value, kw):
    dt = kw.get("dtype") or a.dtype
    out = _obj(tuple(a.shape))
    c = T.const_of(value, dt)
    for idx in np.ndindex(*out.shape):
        out[idx] = c
    return mk(out, dt)


@handler("zeros_like", "empty_like")
def _zeros_like(a, **kw):
    return _like(a, 0, kw)


@handler("ones_like")
def _ones_like(a, **kw):
    return _like(a, 1, kw)


@handler("full_like")
def _full_like(a, fill_value, **kw):
    return _like(a, fill_value, kw)


@handler("new_zeros")
def _new_zeros(a, *size, **kw):
    return torch.zeros(_shape_args(size), dtype=kw.get("dtype") or a.dtype)


@handler("new_ones")
def _new_ones(a, *size, **kw):
    return torch.ones(_shape_args(size), dtype=kw.get("dtype") or a.dtype)


@handler("new_tensor")
def _new_tensor(a, data, **kw):
    return torch.tensor(data, dtype=kw.get("dtype") or a.dtype)


@handler("broadcast_tensors")
def _broadcast_tensors(*ts):
    shp = np.broadcast_shapes(*[tuple(t.shape) for t in ts])
    return tuple(_expand(t, shp) if isinstance(t, SymTensor) else t.expand(shp) for t in ts)


@handler("copy_")
def _copy_(a, src, **kw):
    if not isinstance(a, SymTensor):
        raise Unsupported("copy_ of symbolic values into a real tensor")
    a.sym[...] = np.broadcast_to(to_terms(src, a.dtype), a.sym.shape)
    return a


@handler("fill_")
def _fill_(a, v):
    a.sym[...] = to_terms(v, a.dtype)[()]
    return a


@handler("zero_")
def _zero_(a):
    a.sym[...] = T.const_of(0, a.dtype)
    return a


# ------------------------------------------------------------------------------------------------
# opaque fallback: unknown op -> elements are fresh functions of all input elements
# ------------------------------------------------------------------------------------------------
def opaque(func, name, args, kwargs):
    c = T.ctx()
    flat_terms = []

    def to_meta(x):
        if isinstance(x, SymTensor):
            flat_terms.extend(list(x.sym.reshape(-1)))
            return torch.empty(tuple(x.shape), dtype=x.dtype, device="meta")
        if isinstance(x, torch.Tensor):
            flat_terms.extend(list(lift_tensor(x).reshape(-1)))
            return torch.empty(tuple(x.shape), dtype=x.dtype, device="meta")
        if isinstance(x, (list, tuple)):
            return type(x)(to_meta(y) for y in x)
        return x

    try:
        with _DisableTF():
            margs = to_meta(args)
            mkw = {k: to_meta(v) for k, v in kwargs.items()}
            out = func(*margs, **mkw)
    except Unsupported:
        raise
    except Exception as e:
        raise Unsupported(f"no handler for torch function '{name}' and meta evaluation failed: {type(e).__name__}: {e}")
    c.opaque_ops.add(name)

    def from_meta(o, tag):
        if isinstance(o, torch.Tensor):
            arr = _obj(tuple(o.shape))
            srt = T.sort_of_dtype(o.dtype)
            for k, idx in enumerate(np.ndindex(*o.shape)):
                arr[idx] = T.apply_fn(f"opaque:{name}:{tag}:{k}", tuple(flat_terms), sort=srt) if flat_terms else z3.Const(c.fresh_name(f"opaque:{name}"), srt)
            return mk(arr, o.dtype)
        if isinstance(o, (list, tuple)):
            return type(o)(from_meta(y, f"{tag}.{i}") for i, y in enumerate(o))
        return o

    return from_meta(out, "0")
