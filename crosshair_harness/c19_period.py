"""CrossHair harness (C19): integer arithmetic of the annealing plateau period on the real _initialize_annealing."""
import warnings

warnings.filterwarnings("ignore")
import leaspy.models  # noqa (import order: avoids the circular import of leaspy.variables)
from leaspy.algo.algo_with_annealing import AlgorithmWithAnnealingMixin as M
from leaspy.exceptions import LeaspyAlgoInputError


class _Fake:
    pass


def period_is_positive(ann_n_iter: int, n_plateau: int) -> bool:
    """
    Every configuration accepted by _initialize_annealing has a plateau period >= 1 (so `iteration % period` never divides by 0).

    pre: 0 <= ann_n_iter
    pre: 2 <= n_plateau
    post: __return__
    """
    a = _Fake()
    a.annealing_on = True
    a.temperature = 1.0
    a.temperature_inv = 1.0
    a._annealing_period = None
    a._annealing_temperature_decrement = None
    a.algo_parameters = {"annealing": {"initial_temperature": 10.0, "n_plateau": n_plateau, "n_iter": ann_n_iter}}
    try:
        M._initialize_annealing(a)
    except LeaspyAlgoInputError:
        return True
    return a._annealing_period is None or a._annealing_period >= 1
