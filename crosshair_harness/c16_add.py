"""CrossHair harness (C16): acceptance / refusal rules of the real IndividualParameters.add_individual_parameters."""
import warnings

warnings.filterwarnings("ignore")
from typing import List

import leaspy.models  # noqa (import order)
from leaspy.exceptions import LeaspyIndividualParamsInputError
from leaspy.io.outputs.individual_parameters import IndividualParameters


def _refused(ip, index, params) -> bool:
    try:
        ip.add_individual_parameters(index, params)
    except LeaspyIndividualParamsInputError:
        return True
    return False


def non_string_index_refused(i: int) -> bool:
    """
    post: __return__
    """
    return _refused(IndividualParameters(), i, {"xi": 0.1})


def duplicate_index_refused(a: str, x: float, y: float) -> bool:
    """
    pre: len(a) <= 4
    post: __return__
    """
    ip = IndividualParameters()
    ip.add_individual_parameters(a, {"xi": x})
    return _refused(ip, a, {"xi": y}) and ip._indices == [a] and ip[a] == {"xi": x}


def distinct_indices_accepted_in_order(a: str, b: str) -> bool:
    """
    numeric-looking identifiers stay strings, in insertion order

    pre: len(a) <= 3 and len(b) <= 3 and a != b
    post: __return__
    """
    ip = IndividualParameters()
    ip.add_individual_parameters(a, {"xi": 0.5, "sources": [0.1, 0.2]})
    ip.add_individual_parameters(b, {"xi": 1.5, "sources": [0.3, 0.4]})
    return ip._indices == [a, b] and all(isinstance(i, str) for i in ip._indices) and ip[b]["sources"] == [0.3, 0.4]


def shape_consistency(n: int, m: int) -> bool:
    """
    a later entry is accepted iff its shapes match the first entry's

    pre: 1 <= n <= 3 and 1 <= m <= 3
    post: __return__
    """
    ip = IndividualParameters()
    ip.add_individual_parameters("a", {"xi": 0.1, "sources": [0.5] * n})
    refused = _refused(ip, "b", {"xi": 0.2, "sources": [0.7] * m})
    return refused == (n != m)


def scalar_vs_list_mismatch_refused(n: int) -> bool:
    """
    pre: 1 <= n <= 3
    post: __return__
    """
    ip = IndividualParameters()
    ip.add_individual_parameters("a", {"xi": 0.1})
    return _refused(ip, "b", {"xi": [0.1] * n}) and _refused(ip, "c", {"xi": 0.1, "tau": 1.0}) and _refused(ip, "d", {})


def unsupported_value_type_refused(kind: int) -> bool:
    """
    pre: 0 <= kind <= 4
    post: __return__
    """
    bad = ["text", None, True, [], ["x"]][kind]
    return _refused(IndividualParameters(), "a", {"xi": bad})


def non_dict_refused(x: float) -> bool:
    """
    post: __return__
    """
    return _refused(IndividualParameters(), "a", [("xi", x)])
