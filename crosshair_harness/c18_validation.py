"""CrossHair harness (C18): design validation of the real SimulationAlgorithm (_check_features, _check_params, _validate_algo_parameters)
on a host object (no settings file / pandas involved for the random-visit designs)."""
import warnings

warnings.filterwarnings("ignore")
from typing import List, Optional

import leaspy.models  # noqa (import order)
from leaspy.algo.simulate.simulate import SimulationAlgorithm
from leaspy.exceptions import LeaspyAlgoInputError


class _Host:
    _PARAM_REQUIREMENTS = SimulationAlgorithm._PARAM_REQUIREMENTS
    _check_features = SimulationAlgorithm._check_features
    _check_params = SimulationAlgorithm._check_params
    _validate_algo_parameters = SimulationAlgorithm._validate_algo_parameters
    _set_param_study = SimulationAlgorithm._set_param_study


def _design(**over):
    d = dict(patient_number=5, first_visit_mean=1.0, first_visit_std=0.5, time_follow_up_mean=5.0, time_follow_up_std=1.0, distance_visit_mean=1.0, distance_visit_std=0.2)
    d.update(over)
    return d


def _outcome(features, design) -> str:
    h = _Host()
    h.features = features
    h.visit_type = "random"
    try:
        h._set_param_study(design)
        h._validate_algo_parameters()
    except LeaspyAlgoInputError:
        return "refused"
    return "accepted"


def patient_number_rule(n: int) -> bool:
    """
    post: __return__
    """
    return _outcome(["f"], _design(patient_number=n)) == ("accepted" if n > 0 else "refused")


def std_rule(which: int, x: float) -> bool:
    """
    a negative standard deviation is refused, a non-negative one accepted

    pre: 0 <= which <= 2
    pre: -1000.0 <= x <= 1000.0
    post: __return__
    """
    name = ["first_visit_std", "time_follow_up_std", "distance_visit_std"][which]
    return _outcome(["f"], _design(**{name: x})) == ("accepted" if x >= 0 else "refused")


def min_spacing_rule(x: float) -> bool:
    """
    pre: -1000.0 <= x <= 1000.0
    post: __return__
    """
    return _outcome(["f"], _design(min_spacing_between_visits=x)) == ("accepted" if x >= 0 else "refused")


def spacing_needs_something_positive(m: float, s: float) -> bool:
    """
    pre: -10.0 <= m <= 10.0 and 0.0 <= s <= 10.0
    post: __return__
    """
    return _outcome(["f"], _design(distance_visit_mean=m, distance_visit_std=s)) == ("refused" if (m <= 0 and s <= 0) else "accepted")


def wrong_type_is_an_input_error(which: int, kind: int) -> bool:
    """
    a parameter of the wrong type is refused with LeaspyAlgoInputError (never another exception)

    pre: 0 <= which <= 7
    pre: 0 <= kind <= 3
    post: __return__
    """
    name = ["patient_number", "first_visit_mean", "first_visit_std", "time_follow_up_mean", "time_follow_up_std", "distance_visit_mean", "distance_visit_std", "min_spacing_between_visits"][which]
    bad = ["text", None, [1.0], {"a": 1}][kind]
    return _outcome(["f"], _design(**{name: bad})) == "refused"


def missing_parameter_refused(which: int) -> bool:
    """
    pre: 0 <= which <= 6
    post: __return__
    """
    name = ["patient_number", "first_visit_mean", "first_visit_std", "time_follow_up_mean", "time_follow_up_std", "distance_visit_mean", "distance_visit_std"][which]
    d = _design()
    h = _Host()
    h.features = ["f"]
    h.visit_type = "random"
    h.param_study = {k: v for k, v in d.items() if k != name}
    try:
        h._validate_algo_parameters()
    except LeaspyAlgoInputError:
        return True
    return False


def features_rule(a: str, kind: int) -> bool:
    """
    features: non-empty list of non-blank strings

    pre: len(a) <= 3
    pre: 0 <= kind <= 4
    post: __return__
    """
    feats = [[a], [], [a, 3], "ab", [a, a + "x"]][kind]
    ok = isinstance(feats, list) and len(feats) > 0 and all(isinstance(f, str) and f.strip() != "" for f in feats)
    return _outcome(feats, _design()) == ("accepted" if ok else "refused")
