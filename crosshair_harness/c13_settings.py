"""CrossHair harness (C13): constructing and initialising an algorithm never writes into the caller's AlgorithmSettings."""
import copy
import warnings

warnings.filterwarnings("ignore")

import leaspy.models  # noqa (import order)
from leaspy.algo import AlgorithmSettings, algorithm_factory

# warm-up at import time: lazy imports (matplotlib cache dir, ...) have filesystem side effects that CrossHair refuses during analysis
for _n in ("mcmc_saem", "mean_posterior", "mode_posterior"):
    algorithm_factory(AlgorithmSettings(_n, n_iter=20))


def settings_untouched_by_fit_algorithm(n_iter: int, anneal: bool) -> bool:
    """
    pre: 20 <= n_iter <= 5000
    post: __return__
    """
    kw = dict(annealing=dict(do_annealing=True)) if anneal else {}
    settings = AlgorithmSettings("mcmc_saem", n_iter=n_iter, seed=3, **kw)
    snap = copy.deepcopy(settings.parameters)
    algo = algorithm_factory(settings)
    algo._initialize_annealing()
    algo.algo_parameters["n_iter"] = -1  # the algorithm's own copy is its own
    ok = settings.parameters == snap and settings.seed == 3
    # the same settings object can be reused: a second algorithm gets the same configuration
    algo2 = algorithm_factory(settings)
    return ok and algo2.algo_parameters["n_iter"] == n_iter and algo2.algo_parameters["n_burn_in_iter"] == algo.algo_parameters["n_burn_in_iter"]


def settings_untouched_by_personalize_algorithm(n_iter: int, which: int) -> bool:
    """
    pre: 10 <= n_iter <= 2000
    pre: 0 <= which <= 1
    post: __return__
    """
    name = ["mean_posterior", "mode_posterior"][which]
    settings = AlgorithmSettings(name, n_iter=n_iter, seed=1)
    snap = copy.deepcopy(settings.parameters)
    algo = algorithm_factory(settings)
    algo._initialize_annealing()
    return settings.parameters == snap
