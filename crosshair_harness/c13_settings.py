"""CrossHair harness (C13): constructing and initialising an algorithm never writes into the caller's AlgorithmSettings."""
import copy
import warnings

warnings.filterwarnings("ignore")

import leaspy.models  # noqa (import order)
from leaspy.algo import AlgorithmSettings, algorithm_factory

# warm-up at import time: lazy imports (matplotlib cache dir, ...) have filesystem side effects that CrossHair refuses during analysis
for _n in ("mcmc_saem", "mean_posterior", "mode_posterior"):
    algorithm_factory(AlgorithmSettings(_n, n_iter=20))


def settings_untouched_by_fit_algorithm(n_iter: int, anneal: bool) -> bool:
    """
    pre: 20 <= n_iter <= 5000
    post: __return__
    """
    kw = dict(annealing=dict(do_annealing=True)) if anneal else {}
    settings = AlgorithmSettings("mcmc_saem", n_iter=n_iter, seed=3, **kw)
    snap = copy.deepcopy(settings.parameters)
    algo = algorithm_factory(settings)
    algo._initialize_annealing()
    algo.algo_parameters["n_iter"] = -1  # the algorithm's own copy is its own
    ok = settings.parameters == snap and settings.seed == 3
    # the same settings object can be reused: a second algorithm gets the same configuration
    algo2 = algorithm_factory(settings)
    return ok and algo2.algo_parameters["n_iter"] == n_iter and algo2.algo_parameters["n_burn_in_iter"] == algo.algo_parameters["n_burn_in_iter"]


def settings_untouched_by_personalize_algorithm(n_iter: int, which: int) -> bool:
    """
    pre: 10 <= n_iter <= 2000
    pre: 0 <= which <= 1
    post: __return__
    """
    name = ["mean_posterior", "mode_posterior"][which]
    settings = AlgorithmSettings(name, n_iter=n_iter, seed=1)
    snap = copy.deepcopy(settings.parameters)
    algo = algorithm_factory(settings)
    algo._initialize_annealing()
    return settings.parameters == snap


# ---- the visits table handed to simulate (visit_type="dataframe") is not modified -----------------------------------
import pandas as pd  # noqa: E402
from leaspy.algo.simulate.simulate import SimulationAlgorithm  # noqa: E402
from leaspy.exceptions import LeaspyAlgoInputError, LeaspyIndividualParamsInputError  # noqa: E402


def _sim_settings(df):
    return AlgorithmSettings("simulate", seed=0, features=["y1", "y2"], visit_parameters={"visit_type": "dataframe", "df_visits": df})


# warm-up (lazy imports) with an ordinary table
_w = SimulationAlgorithm(_sim_settings(pd.DataFrame({"ID": ["a", "a", "b"], "TIME": [60.0, 61.0, 70.0]})))
_w._generate_visit_ages(pd.DataFrame())


def simulate_leaves_the_visits_table_untouched(id0: int, id1: int, ids_as_text: bool, t0: float, dt: float) -> bool:
    """
    constructing the simulation algorithm (design checks) and deriving the visit ages never writes into the caller's table,
    whatever the identifiers are (numbers or text)

    pre: -5 <= id0 <= 300 and -5 <= id1 <= 300
    pre: 40.0 <= t0 <= 90.0 and 0.25 <= dt <= 5.0
    post: __return__
    """
    ids = [id0, id0, id1]
    df = pd.DataFrame({"ID": [str(i) for i in ids] if ids_as_text else ids, "TIME": [t0, t0 + dt, t0 + 2 * dt]})
    snap, snap_dtypes = df.copy(deep=True), list(df.dtypes)
    settings = _sim_settings(df)
    try:
        algo = SimulationAlgorithm(settings)
        ages = algo._generate_visit_ages(pd.DataFrame())
    except (LeaspyAlgoInputError, LeaspyIndividualParamsInputError):
        ages = None  # refused design: still nothing may have been written
    held = settings.parameters["visit_parameters"]["df_visits"]
    return df.equals(snap) and list(df.dtypes) == snap_dtypes and held is df and (ages is None or sorted(len(v) for v in ages.values()) == ([1, 2] if id0 != id1 else [3]))
