"""CrossHair harness (C11): logging never aborts a run and re-seeding covers every generator (real OutputsSettings,
FitOutputManager.__init__/iteration, BaseAlgorithm._initialize_seed / run)."""
import warnings

warnings.filterwarnings("ignore")
from typing import Optional

import leaspy.models  # noqa (import order)
import leaspy.algo.base as algo_base
from leaspy.algo.fit.fit_output_manager import FitOutputManager
from leaspy.algo.settings import OutputsSettings
from leaspy.exceptions import LeaspyAlgoInputError

# filesystem effects of the settings object are stubbed (folder creation / cleaning): part of the claim
OutputsSettings._check_folder_is_empty_or_create_it = staticmethod(lambda p: True)
OutputsSettings._clean_folder = staticmethod(lambda p: None)


class _Algo:
    def __init__(self, it):
        self.current_iteration = it


def logging_never_aborts(print_p: Optional[int], save_p: Optional[int], plot_p: Optional[int], patient_p: Optional[int], with_path: bool, it: int) -> bool:
    """
    every logging configuration accepted by OutputsSettings lets iteration() return normally, whatever the periodicities

    pre: 0 <= it <= 6
    pre: print_p is None or -1 <= print_p <= 3
    pre: save_p is None or -1 <= save_p <= 3
    pre: plot_p is None or -1 <= plot_p <= 3
    pre: patient_p is None or -1 <= patient_p <= 3
    post: __return__
    """
    settings = {"path": "/nonexistent_verif_logs" if with_path else None, "print_periodicity": print_p, "save_periodicity": save_p, "plot_periodicity": plot_p,
                "plot_patient_periodicity": patient_p, "plot_sourcewise": False, "overwrite_logs_folder": False, "nb_of_patients_to_plot": 5}
    try:
        out = OutputsSettings(settings)
    except LeaspyAlgoInputError:
        return True  # refused configuration
    m = FitOutputManager(out)
    calls = []
    m.print_algo_statistics = lambda a: calls.append("print")
    m.print_model_statistics = lambda mo: None
    m.print_time = lambda: None
    m.save_model_parameters_convergence = lambda i, mo: calls.append("save")
    m.save_plot_patient_reconstructions = lambda i, mo, d: calls.append("patients")
    m.save_plot_convergence_model_parameters = lambda mo: calls.append("plot")
    m.iteration(_Algo(it), None, None)
    # a convergence plot is only ever asked at an iteration where the CSV it reads has been saved
    return ("plot" not in calls) or ("save" in calls) or it == 0


def reseeding_covers_every_generator(seed: int) -> bool:
    """
    pre: 0 <= seed <= 100000
    post: __return__
    """
    rec = []

    class R:
        @staticmethod
        def seed(s):
            rec.append(("random", s))

    class NPR:
        @staticmethod
        def seed(s):
            rec.append(("numpy", s))

    class NP:
        random = NPR

    class TO:
        @staticmethod
        def manual_seed(s):
            rec.append(("torch", s))

    saved = (algo_base.random, algo_base.np, algo_base.torch, algo_base.print) if hasattr(algo_base, "print") else (algo_base.random, algo_base.np, algo_base.torch, None)
    algo_base.random, algo_base.np, algo_base.torch = R, NP, TO
    algo_base.print = lambda *a, **k: None
    try:
        algo_base.BaseAlgorithm._initialize_seed(seed)
        n_after_seed = len(rec)
        algo_base.BaseAlgorithm._initialize_seed(None)
    finally:
        algo_base.random, algo_base.np, algo_base.torch = saved[0], saved[1], saved[2]
        if saved[3] is None:
            del algo_base.print
    return n_after_seed == 3 and len(rec) == 3 and ("numpy", seed) in rec and ("random", seed) in rec and ("torch", seed) in rec


def run_reseeds_before_running(seed: int) -> bool:
    """
    BaseAlgorithm.run re-seeds with the algorithm's seed before _run

    pre: 0 <= seed <= 1000
    post: __return__
    """
    order = []

    class Host:
        name = "x"
        family = None
        seed_ = None
        _duration_to_str = staticmethod(lambda d: "")

        def __init__(self, s):
            self.seed = s
            self.algo_parameters = {}

        def _initialize_seed(self, s):
            order.append(("seed", s))

        def _run(self, model, **kw):
            order.append(("run",))
            return 42

    class Fam:
        value = "fit"

    h = Host(seed)
    h.family = Fam()
    saved_print = getattr(algo_base, "print", None)
    algo_base.print = lambda *a, **k: None
    try:
        out = algo_base.BaseAlgorithm.run(h, None)
    finally:
        if saved_print is None:
            del algo_base.print
    return out == 42 and order == [("seed", seed), ("run",)]
