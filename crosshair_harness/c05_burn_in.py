"""CrossHair harness (C05): length of the memory-less phase decided by the real AlgorithmWithSamplersMixin.__init__."""
import warnings

warnings.filterwarnings("ignore")
from typing import Optional

import leaspy.models  # noqa (import order: avoids the circular import of leaspy.variables)
from leaspy.algo.algo_with_samplers import AlgorithmWithSamplersMixin
from leaspy.exceptions import LeaspyAlgoInputError


class _Base:
    def __init__(self, settings):
        self.algo_parameters = dict(settings)


class _Host(AlgorithmWithSamplersMixin, _Base):
    pass


def explicit_count_wins(n_iter: int, count: int, frac_percent: Optional[int]) -> bool:
    """
    pre: 1 <= n_iter <= 100000
    pre: 0 <= count <= n_iter
    pre: frac_percent is None or 0 <= frac_percent <= 100
    post: __return__
    """
    frac = None if frac_percent is None else frac_percent / 100
    h = _Host({"n_iter": n_iter, "n_burn_in_iter": count, "n_burn_in_iter_frac": frac})
    return h.algo_parameters["n_burn_in_iter"] == count


def both_none_refused(n_iter: int) -> bool:
    """
    pre: 1 <= n_iter
    post: __return__
    """
    try:
        _Host({"n_iter": n_iter, "n_burn_in_iter": None, "n_burn_in_iter_frac": None})
    except LeaspyAlgoInputError:
        return True
    return False


def fraction_gives_phase_within_run(n_iter: int, frac_percent: int) -> bool:
    """
    The memory-less phase derived from a fraction is a whole number of iterations within [0, n_iter].

    pre: 1 <= n_iter <= 100000
    pre: 0 <= frac_percent <= 100
    post: __return__
    """
    h = _Host({"n_iter": n_iter, "n_burn_in_iter": None, "n_burn_in_iter_frac": frac_percent / 100})
    b = h.algo_parameters["n_burn_in_iter"]
    return isinstance(b, int) and 0 <= b <= n_iter and abs(b - (frac_percent * n_iter) / 100) <= 1
