#!/bin/bash
# usage: check.sh <PROPERTY_ID> <quick|thorough>
cd /verif
bash /verif/setup.sh >/dev/null 2>&1 || { echo "setup failed"; bash /verif/setup.sh; exit 2; }
exec /verif/.venv/bin/python /verif/run_check.py "$1" --tier "${2:-quick}"
