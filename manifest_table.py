# table consumed by gen_manifest.py
claim("C08", "symtorch", "symbolic execution of the real distribution families on z3-term tensors; SMT (z3 nlsat / FP bit-blasting) proves entry-wise equality with the textbook density",
      "Bounded proof: for every value of x/loc/scale/nu/rho/xi/tau/censoring flag and each broadcasting layout up to 2x2x2 (3x3x3 thorough), each entry of the real function's output is SMT-proved equal to the documented negative log-density (reals; exp/log/pow abstracted identically on both sides); the early-event penalty is proved finite and >= 1e300 in IEEE float64.",
      "Trusted: z3; the handler table of /verif/symtorch (conformance-tested against torch on every run); floats treated as reals in the R obligations; torch.distributions.Bernoulli.log_prob trusted (delegation checked); precondition finite non-zero nu'.",
      "DESIGN.md §4 C08")
