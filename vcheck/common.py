"""Obligation bookkeeping shared by all harnesses.

A harness *task* is a module-level function `fn(**kwargs) -> dict` (run in a worker process).  Inside, it creates a
`Recorder`, executes real leaspy code on symbolic payloads and calls `rec.prove(...)` for every obligation.  A `sat`
answer is turned into a stand-alone replay script (ordinary tensors, imports /repo only) which is executed with
/venv/bin/python; only a script that exits 1 (violation shows on the real code) makes a violation.
"""
from __future__ import annotations

import hashlib
import inspect
import json
import os
import subprocess
import sys
import tempfile
import time
import traceback
from fractions import Fraction

import z3

import symtorch as st
from symtorch import terms as T

REPLAY_PY = "/venv/bin/python"
REPLAY_DIR = "/verif/replays"
MAX_ALT_MODELS = 4


def src_hash(objs):
    h = hashlib.sha256()
    names = []
    for o in objs:
        try:
            src = inspect.getsource(o)
        except Exception:
            src = repr(o)
        h.update(src.encode())
        names.append(getattr(o, "__module__", "?") + "." + getattr(o, "__qualname__", getattr(o, "__name__", repr(o))))
    return names, h.hexdigest()[:16]


def model_value(model, term):
    v = model.eval(term, model_completion=True)
    pv = T.num_value(v)
    if pv is None:
        if z3.is_algebraic_value(v):
            pv = Fraction(v.approx(30).as_fraction())
        else:
            raise st.Unsupported(f"cannot read model value {v}")
    if isinstance(pv, Fraction):
        return float(pv)
    return pv


def tensor_literal(t, model):
    """SymTensor -> python source of an equivalent torch tensor under the model"""
    import numpy as np
    import torch

    if not isinstance(t, st.SymTensor):
        return repr(t)
    vals = np.empty(t.sym.shape, dtype=object)
    for idx in np.ndindex(t.sym.shape):
        vals[idx] = model_value(model, t.sym[idx])

    def lit(x):
        if isinstance(x, float):
            if x != x:
                return "float('nan')"
            if x in (float("inf"), float("-inf")):
                return f"float('{x}')"
        return repr(x)

    def rec(a):
        if isinstance(a, np.ndarray) and a.ndim > 0:
            return "[" + ", ".join(rec(b) for b in a) + "]"
        return lit(a if not isinstance(a, np.ndarray) else a[()])

    return f"torch.tensor({rec(vals)}, dtype={t.dtype})"


def _pin_eqs(witness):
    import numpy as np

    out = []
    for t, val in witness:
        vt = st.to_terms(st.const(val, dtype=t.dtype) if not isinstance(val, st.SymTensor) else val, t.dtype)
        for a, b in zip(t.sym.reshape(-1), np.broadcast_to(vt, t.sym.shape).reshape(-1)):
            out.append(a == b)
    return out


def _genericity():
    xs = [x for t in T.ctx().inputs.values() for x in t.sym.reshape(-1) if z3.is_real(x)]
    xs = xs[:24]
    out = []
    for i, x in enumerate(xs):
        out += [x != 0, x != 1, x != -1, x > -3, x < 3]
        for y in xs[i + 1 :]:
            out.append(x != y)
            out.append(x != -y)
    return out


def _auto_pins(n, seed):
    """a few concrete assignments of all registered inputs (corner values), used only to look for a counterexample
    when the full query timed out"""
    import random

    import numpy as np
    import torch

    rnd = random.Random(seed)
    fpal_r = [0.0, 1.0, -1.0, 0.5, 2.0, -3.0, 0.25, 7.0]
    fpal_f = fpal_r + [float("nan"), float("inf"), float("-inf"), 1e30]
    pins = []
    for _ in range(n):
        pin = []
        for name, t in T.ctx().inputs.items():
            shape = tuple(t.sym.shape)
            if t.dtype == torch.bool:
                val = torch.tensor(np.array([rnd.random() < 0.6 for _ in range(int(np.prod(shape)) or 1)]).reshape(shape))
            elif t.dtype.is_floating_point:
                pal = fpal_f if T.ctx().mode == "F" else fpal_r
                val = torch.tensor(np.array([rnd.choice(pal) for _ in range(int(np.prod(shape)) or 1)], dtype=float).reshape(shape), dtype=t.dtype)
            else:
                val = torch.tensor(np.array([rnd.randrange(0, 3) for _ in range(int(np.prod(shape)) or 1)]).reshape(shape), dtype=t.dtype)
            pin.append((t, val))
        pins.append(pin)
    return pins


class Recorder:
    def __init__(self, prop, task, functions=()):
        self.prop = prop
        self.task = task
        self.t0 = time.time()
        self.obligations = 0
        self.discharged = 0
        self.best_effort_inconclusive = []
        self.inconclusive = []
        self.violations = []
        self.unreproduced = []
        self.samples = []
        self.paths = 0
        self.queries = 0
        self.solver_s = 0.0
        self.twins = {}
        self.opaque = set()
        self.stubs = []
        self.notes = []
        self.functions, self.fhash = src_hash(functions)
        self.unknown_decisions = 0
        self.lemmas = []
        self.skipped_after_violations = 0

    # -- bookkeeping of exploration -----------------------------------------------------------------
    def end_path(self, c=None):
        c = c or T.ctx()
        self.paths += 1
        self.queries += c.n_queries
        self.solver_s += c.solver_s
        self.opaque |= set(c.opaque_ops)
        self.unknown_decisions += c.unknown_decisions
        c.n_queries = 0
        c.solver_s = 0.0

    def sample(self, s):
        if len(self.samples) < 6:
            self.samples.append(s if isinstance(s, (dict, list)) else str(s)[:400])

    # -- obligations -----------------------------------------------------------------------------------
    def prove(self, name, goal, *, replay=None, key=None, required=True, timeout_ms=30000, extra=(), tactics=None, what="", pins=None):
        """goal must be entailed by the context. replay: callable(model) -> python source of a script exiting 1 iff
        the violation shows on the real code (or None when no concrete replay is possible)."""
        if len(self.violations) >= 3 or len(self.inconclusive) >= 4:
            # a broken tree can make every remaining obligation slow: stop after a few violations / inconclusive ones
            self.skipped_after_violations += 1
            T.STOP_EXPLORATION = True
            return None
        self.obligations += 1
        v = T.prove(goal, timeout_ms=timeout_ms, extra=extra, tactics=tactics)
        full = f"{self.task}:{name}"
        if os.environ.get("VERIF_DEBUG"):
            print(f"[dbg] {full}: {v.status} {v.seconds:.2f}s {v.tactic} {v.reason[:200] if v.status == chr(117)+chr(110)+chr(107)+chr(110)+chr(111)+chr(119)+chr(110) else str()}", flush=True)
        if v.status == "unsat":
            self.discharged += 1
            if self.obligations <= 3:
                self.sample({"obligation": full, "verdict": "unsat", "s": round(v.seconds, 3), "tactic": v.tactic})
            return True
        if v.status == "unknown" and not pins and os.environ.get("VERIF_AUTOPIN", "1") == "1":
            pins = _auto_pins(3, int(os.environ.get("VERIF_SEED", "0") or 0) + self.obligations)
        if v.status == "unknown" and pins:
            # the full query timed out: re-ask it with the inputs pinned to designated corner points (still a solver
            # query, but a cheap one). A sat answer there is a genuine counterexample; unsat proves nothing.
            for pin in pins:
                vp = T.prove(goal, timeout_ms=timeout_ms, extra=list(extra) + _pin_eqs(pin), tactics=tactics)
                if vp.status == "sat":
                    self._handle_sat(full, key or full, goal, vp, replay, list(extra) + _pin_eqs(pin), timeout_ms, what)
                    return False
        if v.status == "unknown":
            (self.inconclusive if required else self.best_effort_inconclusive).append(f"{full} ({v.reason or 'timeout'}, {v.seconds:.1f}s)")
            return None
        # sat: candidate counterexample -> replay
        self._handle_sat(full, key or full, goal, v, replay, extra, timeout_ms, what)
        return False

    def _handle_sat(self, full, key, goal, v, replay, extra, timeout_ms, what):
        if replay is None:
            self.unreproduced.append(f"{full}: sat but the harness has no replay for it")
            return
        model = v.model
        tried = 0
        blocking = []
        # prefer a *generic* counterexample (inputs non-zero, not one, pairwise distinct): abstracted functions make
        # degenerate models (all zeros) uninformative when replayed with the true functions
        gen = _genericity() if T.ctx().mode == "R" else []
        if gen:
            vg = T.prove(goal, timeout_ms=min(timeout_ms, 15000), extra=list(extra) + gen)
            if vg.status == "sat":
                model = vg.model
        while True:
            tried += 1
            try:
                script = replay(model)
            except st.Unsupported as e:
                script = None
                err = str(e)
            if script is not None:
                ok, path, out = run_replay(self.prop, full, script)
                if ok:
                    self.violations.append({"key": key, "obligation": full, "what": what, "replay": path, "output": out[-600:]})
                    return
            if tried > MAX_ALT_MODELS:
                break
            # ask for a different model of the inputs
            ins = [x for t in T.ctx().inputs.values() for x in t.sym.reshape(-1)]
            diff = []
            for x in ins[:64]:
                try:
                    mv = model.eval(x, model_completion=True)
                    diff.append(x != mv)
                except Exception:
                    pass
            if not diff:
                break
            blocking.append(z3.Or(*diff))
            v2 = T.prove(goal, timeout_ms=min(timeout_ms, 20000), extra=list(extra) + blocking)
            if v2.status != "sat":
                break
            model = v2.model
        self.unreproduced.append(f"{full}: sat ({tried} models) but no replay reproduced on the real code")

    def violation_from_script(self, name, key, script, what=""):
        """for violations found by direct exploration (a bad path) rather than by a sat answer"""
        full = f"{self.task}:{name}"
        ok, path, out = run_replay(self.prop, full, script)
        if ok:
            self.violations.append({"key": key, "obligation": full, "what": what, "replay": path, "output": out[-600:]})
        else:
            self.unreproduced.append(f"{full}: counterexample path did not reproduce on the real code: {out[-300:]}")
        return ok

    def twin(self, name, extra=(), timeout_ms=20000, witness=None):
        """reachability witness: the context (assumptions ∧ path) must be satisfiable. `witness` (SymTensor -> real
        tensor / number) pins inputs to concrete values so that the query is a cheap evaluation."""
        extra = list(extra)
        if witness:
            extra += _pin_eqs(witness)
        v = T.feasible(extra, timeout_ms)
        self.twins[f"{self.task}:{name}"] = v.status
        if v.status == "unsat":
            self.inconclusive.append(f"{self.task}:{name}: VACUOUS (assumptions unsatisfiable)")
        return v

    def result(self, error=None):
        if T.CROSS["checked"]:
            self.notes.append(f"cvc5 cross-check: {T.CROSS['checked']} unsat verdicts re-decided, {T.CROSS['agree']} agree, {T.CROSS['inconclusive']} inconclusive, {len(T.CROSS['disagree'])} disagree")
            if T.CROSS["disagree"]:
                self.inconclusive.append(f"{self.task}: SOLVER DISAGREEMENT z3 unsat / cvc5 sat on {len(T.CROSS['disagree'])} queries")
            T.CROSS.update(n=0, checked=0, agree=0, inconclusive=0, disagree=[])
        if T.BUDGET_EXHAUSTED:
            self.inconclusive.append(f"{self.task}: {T.BUDGET_EXHAUSTED}")
            T.BUDGET_EXHAUSTED = None
        return {
            "task": self.task,
            "obligations": self.obligations,
            "discharged": self.discharged,
            "inconclusive": self.inconclusive,
            "best_effort_inconclusive": self.best_effort_inconclusive,
            "violations": self.violations,
            "unreproduced": self.unreproduced,
            "samples": self.samples,
            "paths": self.paths,
            "queries": self.queries + T.ctx().n_queries,
            "solver_s": round(self.solver_s + T.ctx().solver_s, 3),
            "twins": self.twins,
            "opaque": sorted(self.opaque | set(T.ctx().opaque_ops)),
            "stubs": self.stubs,
            "notes": self.notes,
            "functions": self.functions,
            "functions_hash": self.fhash,
            "unknown_decisions": self.unknown_decisions,
            "wall_s": round(time.time() - self.t0, 2),
            "error": error,
        }


def run_replay(prop, name, script, timeout=600):
    """write the replay script, run it against /repo with the plain /venv interpreter; exit 1 == violation shows"""
    d = os.path.join(REPLAY_DIR, prop)
    os.makedirs(d, exist_ok=True)
    safe = "".join(ch if ch.isalnum() or ch in "-_." else "_" for ch in name)[:120]
    path = os.path.join(d, safe + ".py")
    header = (
        "# replay generated by /verif (stand-alone: ordinary tensors, real leaspy from /repo). exit 1 == violation shows\n"
        "import sys, warnings; warnings.filterwarnings('ignore')\n"
        f"sys.path.insert(0, {os.environ.get('VERIF_REPO_SRC', '/repo/src')!r})\n"
        "import torch\nimport leaspy.models\n"
    )
    with open(path, "w") as f:
        f.write(header + script)
    env = dict(os.environ)
    env["PYTHONPATH"] = os.environ.get("VERIF_REPO_SRC", "/repo/src")
    try:
        p = subprocess.run([REPLAY_PY, path], capture_output=True, text=True, timeout=timeout, env=env)
    except subprocess.TimeoutExpired:
        return False, path, "replay timeout"
    return p.returncode == 1, path, (p.stdout + p.stderr)


def guarded(prop, task, fn):
    """run a task body; engine errors become `error` (exit 2), never violations"""
    try:
        return fn()
    except st.Unsupported as e:
        r = Recorder(prop, task).result(error=f"Unsupported: {e}\n{traceback.format_exc()[-1500:]}")
        return r
    except Exception as e:  # harness bug
        r = Recorder(prop, task).result(error=f"{type(e).__name__}: {e}\n{traceback.format_exc()[-2500:]}")
        return r
