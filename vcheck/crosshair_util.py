"""Run CrossHair (0.0.110) on a harness file and parse its per-condition verdicts."""
from __future__ import annotations

import os
import re
import subprocess
import sys


def run_crosshair(path, per_condition_timeout=30, extra_args=()):
    """returns [(function or line, verdict, detail)], verdict in confirmed | counterexample | not_confirmed | unable | error"""
    env = dict(os.environ)
    env["PYTHONPATH"] = os.environ.get("VERIF_REPO_SRC", "/repo/src") + os.pathsep + "/verif" + os.pathsep + os.path.dirname(path)
    cmd = [sys.executable, "-m", "crosshair", "check", "--report_all", "--per_condition_timeout", str(per_condition_timeout), *extra_args, path]
    p = subprocess.run(cmd, capture_output=True, text=True, env=env, timeout=per_condition_timeout * 20 + 120)
    out = p.stdout + p.stderr
    src = open(path).read().splitlines()

    def fn_of(line_no):
        for k in range(min(line_no, len(src)) - 1, -1, -1):
            m = re.match(r"\s*def (\w+)", src[k])
            if m:
                return m.group(1)
        return f"line{line_no}"

    res = []
    entries = []
    for line in out.splitlines():
        m = re.match(r".*?:(\d+): (error|info): (.*)", line)
        if not m:
            if entries:
                entries[-1][2] += " " + line.strip()  # continuation of a multi-line message
            continue
        entries.append([int(m.group(1)), m.group(2), m.group(3)])
    for ln, kind, msg in entries:
        fn = fn_of(ln)
        if kind == "error":
            mm = re.search(r"^false when calling (.*?\))(?: \(which|$)", msg)
            if mm:
                res.append((fn, "counterexample", mm.group(1)))
            else:
                res.append((fn, "error", msg))
        elif "Confirmed over all paths" in msg:
            res.append((fn, "confirmed", msg))
        elif "Not confirmed" in msg:
            res.append((fn, "not_confirmed", msg))
        elif "Unable to meet precondition" in msg:
            res.append((fn, "unable", msg))
        else:
            res.append((fn, "info", msg))
    if not res:
        res.append(("crosshair", "error", out[-400:]))
    return res


def record(rec, task, res, path, key_of=lambda fn, call: None, skip=()):
    """turn CrossHair verdicts into obligations of a Recorder; counterexamples (postcondition false or exception escaping the
    harness function) are replayed by calling the same harness function with the reported arguments"""
    mod = os.path.splitext(os.path.basename(path))[0]
    d = os.path.dirname(path)
    for fn, verdict, detail in res:
        if fn.startswith("_") or fn in skip:
            continue
        rec.obligations += 1
        call = None
        if verdict == "counterexample":
            call = detail
        elif verdict == "error":
            mm = re.search(r"when calling (.*\))", detail)
            call = mm.group(1) if mm else None
            if call and " (which" in call:
                call = call.split(" (which")[0]
        if verdict == "confirmed":
            rec.discharged += 1
        elif call:
            script = (
                f"sys.path.insert(0, {d!r})\nimport {mod} as H\ntry:\n    r = H.{call}\nexcept AssertionError as e:\n    print('postcondition violated', e); sys.exit(1)\n"
                "except Exception as e:\n    print('raised', type(e).__name__, e); sys.exit(1)\nprint(r); sys.exit(0 if r else 1)\n"
            )
            rec.violation_from_script(fn, key_of(fn, call) or f"{rec.prop}:{fn}", script, what=f"CrossHair counterexample: {call} [{detail[:120]}]")
        elif verdict == "not_confirmed":
            rec.obligations -= 1
            rec.best_effort_inconclusive.append(f"{task}:{fn}: bounded search without counterexample (paths not exhausted in the budget)")
        else:
            rec.inconclusive.append(f"{task}:{fn}: {verdict} {detail[:160]}")
    rec.sample({"crosshair": [(f, v, d_[:80]) for f, v, d_ in res]})
