"""Run CrossHair (0.0.110) on a harness file and parse its per-condition verdicts."""
from __future__ import annotations

import os
import re
import subprocess
import sys


def run_crosshair(path, per_condition_timeout=30, extra_args=()):
    """returns [(function or line, verdict, detail)], verdict in confirmed | counterexample | not_confirmed | unable | error"""
    env = dict(os.environ)
    env["PYTHONPATH"] = os.environ.get("VERIF_REPO_SRC", "/repo/src") + os.pathsep + "/verif" + os.pathsep + os.path.dirname(path)
    cmd = [sys.executable, "-m", "crosshair", "check", "--report_all", "--per_condition_timeout", str(per_condition_timeout), *extra_args, path]
    p = subprocess.run(cmd, capture_output=True, text=True, env=env, timeout=per_condition_timeout * 20 + 120)
    out = p.stdout + p.stderr
    src = open(path).read().splitlines()

    def fn_of(line_no):
        for k in range(min(line_no, len(src)) - 1, -1, -1):
            m = re.match(r"\s*def (\w+)", src[k])
            if m:
                return m.group(1)
        return f"line{line_no}"

    res = []
    for line in out.splitlines():
        m = re.match(r".*?:(\d+): (error|info): (.*)", line)
        if not m:
            continue
        ln, kind, msg = int(m.group(1)), m.group(2), m.group(3)
        fn = fn_of(ln)
        if kind == "error":
            mm = re.search(r"when calling (.*?\))(?: \(which|$)", msg)
            if mm:
                res.append((fn, "counterexample", mm.group(1)))
            else:
                res.append((fn, "error", msg))
        elif "Confirmed over all paths" in msg:
            res.append((fn, "confirmed", msg))
        elif "Not confirmed" in msg:
            res.append((fn, "not_confirmed", msg))
        elif "Unable to meet precondition" in msg:
            res.append((fn, "unable", msg))
        else:
            res.append((fn, "info", msg))
    if not res:
        res.append(("crosshair", "error", out[-400:]))
    return res
