"""E3: cut a statement range out of a real function's *current* source (located by a structural pattern, failing loudly if the
pattern is gone) and turn it into a stand-alone function that CrossHair / the symbolic engine can execute."""
from __future__ import annotations

import ast
import inspect
import textwrap


class SliceError(Exception):
    pass


def function_ast(fn):
    src = textwrap.dedent(inspect.getsource(fn))
    tree = ast.parse(src)
    node = tree.body[0]
    if not isinstance(node, (ast.FunctionDef, ast.AsyncFunctionDef)):
        raise SliceError(f"cannot parse {fn}")
    return node


def find_statements(fn, predicate, what):
    """top-level statements of fn's body satisfying predicate(stmt) (searched recursively in compound statements' bodies)"""
    node = function_ast(fn)
    found = []

    def visit(stmts):
        for s in stmts:
            if predicate(s):
                found.append(s)
            for attr in ("body", "orelse", "finalbody"):
                sub = getattr(s, attr, None)
                if isinstance(sub, list) and sub and isinstance(sub[0], ast.stmt):
                    visit(sub)

    visit(node.body)
    if not found:
        raise SliceError(f"pattern not found in {fn.__qualname__}: {what} (the code changed: the slice must be re-anchored)")
    return found


def assigns_name(stmt, name):
    for n in ast.walk(stmt):
        if isinstance(n, (ast.Assign, ast.AugAssign, ast.AnnAssign)):
            targets = n.targets if isinstance(n, ast.Assign) else [n.target]
            for t in targets:
                for x in ast.walk(t):
                    if isinstance(x, ast.Name) and x.id == name:
                        return True
        if isinstance(n, ast.Call) and isinstance(n.func, ast.Attribute) and isinstance(n.func.value, ast.Name) and n.func.value.id == name and n.func.attr in ("append", "extend"):
            return True
    return False


def make_function(name, params, stmts, returns, prologue=""):
    """source of `def name(params): prologue; stmts; return returns`"""
    body = "\n".join(ast.unparse(s) for s in stmts)
    src = f"def {name}({', '.join(params)}):\n"
    if prologue:
        src += textwrap.indent(prologue, "    ") + "\n"
    src += textwrap.indent(body, "    ") + f"\n    return {returns}\n"
    return src
