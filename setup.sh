#!/bin/bash
# Offline setup: overlay venv of /venv with z3-solver, cvc5 and crosshair-tool from the local wheelhouse.
set -e
V=/verif/.venv
if [ -x "$V/bin/python" ] && "$V/bin/python" -c "import z3, crosshair, torch" 2>/dev/null; then
  exit 0
fi
rm -rf "$V"
/venv/bin/python -m venv "$V"
SP=$("$V/bin/python" -c "import sysconfig; print(sysconfig.get_paths()['purelib'])")
printf "import site; site.addsitedir('/venv/lib/python3.12/site-packages')\n" > "$SP/_overlay.pth"
PIP_NO_INDEX=1 "$V/bin/python" -m pip install -q --no-index --find-links /opt/veriftools/wheels z3-solver crosshair-tool cvc5 2>&1 | tail -3
"$V/bin/python" -c "import z3, crosshair, torch, leaspy; print('setup ok', z3.get_version_string(), leaspy.__file__)"
