#!/usr/bin/env python3
"""Regenerates /verif/MANIFEST.json from the table below (keeps it schema-valid at all times)."""
import json
import importlib
import sys

sys.path.insert(0, "/verif")

# property -> (engine, technique, level text, level note, design ref)
CLAIMED = {}
NOT_APPLICABLE = {}


def claim(pid, engine, technique, text, note, ref):
    CLAIMED[pid] = dict(engine=engine, technique=technique, text=text, note=note, ref=ref)


exec(open("/verif/manifest_table.py").read())

props = [json.loads(l) for l in open("/verif/properties.jsonl")]
checks = []
for p in props:
    pid = p["id"]
    if pid not in CLAIMED:
        continue
    c = CLAIMED[pid]
    checks.append(
        {
            "property_id": pid,
            "quick_cmd": f"bash /verif/check.sh {pid} quick",
            "thorough_cmd": f"bash /verif/check.sh {pid} thorough",
            "evidence_file": f"/verif/evidence/{pid}.json",
            "replay_cmd_template": "/venv/bin/python {path}",
            "engine": c["engine"],
            "level_claimed": {"category": "other", "text": c["text"], "design_ref": c["ref"]},
            "level_note": c["note"],
            "technique": c["technique"],
        }
    )
na = []
for p in props:
    pid = p["id"]
    if pid in CLAIMED:
        continue
    na.append({"property_id": pid, "reason": NOT_APPLICABLE.get(pid, "check not built yet (work in progress)")})

m = {
    "version": 1,
    "setup_cmd": "bash /verif/setup.sh",
    "hooks": {
        "guard": "LEASPY_VERIF",
        "enable": "no hooks needed: the checks import /repo/src as it is and replace the environment (RNG, factories, file I/O) from the harness side",
        "baseline_off_cmd": "cd /repo && /venv/bin/python -m pytest -ra -q -p no:cacheprovider --timeout=900 --continue-on-collection-errors",
        "source_commits": [],
        "add_only": True,
    },
    "engines": [
        {
            "name": "symtorch",
            "path": "/verif/symtorch",
            "serves_properties": sorted(k for k, v in CLAIMED.items() if "symtorch" in v["engine"]),
            "kind_free_text": "symbolic execution of the real leaspy functions on torch.Tensor-subclass payloads carrying z3 terms (Real / IEEE FP / Int / Bool), own path explorer, z3 decides every obligation; counterexamples replayed on the real code",
        },
        {
            "name": "crosshair",
            "path": "/verif/crosshair_harness",
            "serves_properties": sorted(k for k, v in CLAIMED.items() if "crosshair" in v["engine"]),
            "kind_free_text": "CrossHair 0.0.110 (symbolic execution of pure-Python methods with z3) on contract functions that call the real leaspy methods",
        },
    ],
    "checks": checks,
    "notes": "All checks: `bash /verif/check.sh <id> <tier>` -> /verif/run_check.py; exit 0 held / only known findings, 1 VIOLATION (replayed on real code), 2 inconclusive or engine limitation (never a VIOLATION line). Known findings: /verif/known_findings.json.",
    "not_applicable": na,
}
json.dump(m, open("/verif/MANIFEST.json", "w"), indent=1)
print("claimed", sorted(CLAIMED), "n/a", [x["property_id"] for x in na])
