#!/verif/.venv/bin/python
"""run_check.py <PROPERTY_ID> [--tier quick|thorough] [--only substring] [--jobs N]

Runs the solver-based check of one property against /repo's current working tree, writes
/verif/evidence/<id>.json and exits 0 (held / only known findings), 1 (VIOLATION reproduced on the real code) or
2 (harness status: inconclusive required obligation, engine limitation, non-reproducing counterexample).
"""
from __future__ import annotations

import argparse
import importlib
import json
import multiprocessing as mp
import os
import sys
import time
import traceback

sys.path.insert(0, "/verif")
# the tree under check (default: /repo's working tree). VERIF_REPO_SRC is only meant for trying a scratch worktree.
REPO_SRC = os.environ.get("VERIF_REPO_SRC", "/repo/src")
sys.path.insert(0, REPO_SRC)
os.environ["PYTHONPATH"] = REPO_SRC + os.pathsep + "/verif" + (os.pathsep + os.environ["PYTHONPATH"] if os.environ.get("PYTHONPATH") else "")
os.environ.setdefault("OMP_NUM_THREADS", "1")
os.environ.setdefault("MKL_NUM_THREADS", "1")

HARNESS = {f"C{n:02d}": f"harness.c{n:02d}" for n in range(1, 21)}


def _worker(args):
    modname, fname, kwargs = args
    import warnings

    warnings.filterwarnings("ignore")
    import torch

    torch.set_num_threads(1)
    try:
        mod = importlib.import_module(modname)
        t0 = time.time()
        res = getattr(mod, fname)(**kwargs)
        res.setdefault("wall_s", round(time.time() - t0, 2))
        return res
    except BaseException as e:  # noqa
        return {
            "task": f"{fname}{kwargs}",
            "obligations": 0,
            "discharged": 0,
            "inconclusive": [],
            "violations": [],
            "unreproduced": [],
            "error": f"{type(e).__name__}: {e}\n{traceback.format_exc()[-3000:]}",
        }


def load_known():
    p = "/verif/known_findings.json"
    if not os.path.exists(p):
        return []
    return json.load(open(p)).get("findings", [])


def main():
    ap = argparse.ArgumentParser()
    ap.add_argument("prop")
    ap.add_argument("--tier", default=os.environ.get("VERIF_TIER", "quick"))
    ap.add_argument("--only", default=None)
    ap.add_argument("--jobs", type=int, default=int(os.environ.get("VERIF_JOBS", "16")))
    a = ap.parse_args()
    prop = a.prop
    tier = a.tier if a.tier in ("quick", "thorough") else "quick"
    seed = int(os.environ.get("VERIF_SEED", "0") or 0)
    os.environ["VERIF_TIER"] = tier
    if tier == "thorough":
        os.environ.setdefault("VERIF_CROSSCHECK", "40")  # every 40th `unsat` is re-decided by cvc5 (second solver); a disagreement is exit 2
    t0 = time.time()
    # trusted base first: the handler table must agree with torch on constant payloads (a disagreement is exit 2, never a verdict)
    conf_n, conf_fail = 0, []
    if os.environ.get("VERIF_SKIP_CONFORMANCE") != "1":
        import warnings as _w

        _w.filterwarnings("ignore")
        from symtorch import conformance

        conf_n, conf_fail = conformance.run(seed)
        if conf_fail:
            for x in conf_fail:
                print(f"HARNESS-ERROR property={prop} handler conformance: {x}")
            print(f"{prop}: handler conformance failed ({len(conf_fail)}/{conf_n}) -> exit 2")
            sys.exit(2)
    mod = importlib.import_module(HARNESS[prop])
    tasks = mod.tasks(tier, seed)
    if a.only:
        tasks = [t for t in tasks if a.only in t[0] or a.only in json.dumps(t[1], default=str)]
    import random

    order = list(range(len(tasks)))
    random.Random(seed).shuffle(order)
    # long tasks first when the harness gives weights
    jobs = [(HARNESS[prop], tasks[i][0], tasks[i][1]) for i in order]
    results = []
    if not jobs:
        print(f"HARNESS-ERROR property={a.prop} no task selected (--only {a.only!r})")
        sys.exit(2)
    if a.jobs <= 1 or len(jobs) == 1:
        for j in jobs:
            results.append(_worker(j))
    else:
        ctx = mp.get_context("spawn")
        with ctx.Pool(min(a.jobs, len(jobs)), maxtasksperchild=8) as pool:
            for r in pool.imap_unordered(_worker, jobs):
                results.append(r)
    wall = time.time() - t0

    known = [k for k in load_known() if k.get("property") == prop and k.get("status", "known") == "known"]
    known_keys = {k["key"]: k for k in known}
    violations, known_hits = [], {}
    for r in results:
        for v in r.get("violations", []):
            if v["key"] in known_keys:
                known_hits.setdefault(v["key"], v)
            else:
                violations.append(v)
    errors = [(r["task"], r["error"]) for r in results if r.get("error")]
    inconclusive = [x for r in results for x in r.get("inconclusive", [])]
    unreproduced = [x for r in results for x in r.get("unreproduced", [])]
    obligations = sum(r.get("obligations", 0) for r in results)
    discharged = sum(r.get("discharged", 0) for r in results)
    meta = getattr(mod, "META", {})
    samples = []
    for r in results:
        for s in r.get("samples", [])[:2]:
            samples.append(s)
    samples = samples[:12] or [{"tasks": [j[1] for j in jobs][:5]}]
    n_paths = sum(r.get("paths", 0) for r in results)
    n_distinct = len({json.dumps(s, sort_keys=True, default=str) for r in results for s in r.get("samples", [])})
    evidence = {
        "property_id": prop,
        "tier": tier,
        "seed": seed,
        "level": "other",
        "coverage": {
            "explanation": meta.get("explanation", "")
            + " Decided by SMT queries (z3) over terms produced by executing the real leaspy functions on symbolic tensor payloads / by CrossHair on the real methods; `unsat` of the negated property = holds for all values within the bounds.",
            "bounds": meta.get("bounds", ""),
            "outside_claim": meta.get("outside", ""),
            "functions_encoded": sorted({f for r in results for f in r.get("functions", [])}),
            "functions_hash": sorted({r.get("functions_hash", "") for r in results if r.get("functions_hash")}),
            "stubs": sorted({s for r in results for s in r.get("stubs", [])}),
            "opaque_ops": sorted({s for r in results for s in r.get("opaque", [])}),
            "handler_conformance": f"{conf_n} cases (constant payloads vs torch, both theories), 0 disagreements",
            "tasks": len(results),
            "paths_explored": n_paths,
            "obligations": obligations,
            "discharged": discharged,
            "inconclusive_required": inconclusive,
            "inconclusive_best_effort": [x for r in results for x in r.get("best_effort_inconclusive", [])],
            "reachability_twins": {k: v for r in results for k, v in r.get("twins", {}).items()},
            "solver_queries": sum(r.get("queries", 0) for r in results),
            "solver_seconds": round(sum(r.get("solver_s", 0.0) for r in results), 2),
            "solver": "z3 %s (qfnra-nlsat tactic then default portfolio for reals; default for FP/Int)" % _z3v(),
            "evaluations": max(obligations + n_paths, 1),
            "distinct_nontrivial": max(n_distinct, min(obligations, 2)),
            "rule": "one evaluation = one solver-decided obligation or one explored execution path; distinct = distinct sampled obligation records",
            "samples": samples,
            "known_findings_hit": sorted(known_hits),
            "notes": sorted({n for r in results for n in r.get("notes", [])})[:40],
            "per_task": [
                {k: r.get(k) for k in ("task", "obligations", "discharged", "paths", "queries", "solver_s", "wall_s")} for r in results
            ],
        },
        "assumptions": meta.get("assumptions", []),
        "wall_s": round(wall, 2),
        "violations": len(violations),
    }
    evdir = os.environ.get("VERIF_EVIDENCE_DIR", "/verif/evidence")  # the override is only for dry runs that must not touch the committed evidence
    os.makedirs(evdir, exist_ok=True)
    with open(f"{evdir}/{prop}.json", "w") as f:
        json.dump(evidence, f, indent=1, default=str)

    for k, v in known_hits.items():
        print(f"KNOWN-FINDING: property={prop} {known_keys[k]['what']} [key={k}] replay={v['replay']}")
    for k in known_keys:
        if k not in known_hits:
            print(f"note: known finding {k} was not re-observed in this run (tier={tier})")
    code = 0
    if violations:
        seen = set()
        for v in violations:
            if v["replay"] in seen:
                continue
            seen.add(v["replay"])
            print(f"VIOLATION property={prop} replay={v['replay']}")
            print(f"  obligation={v['obligation']} key={v['key']} {v.get('what','')}")
        code = 1
    if errors or inconclusive or unreproduced:
        for t, e in errors:
            print(f"HARNESS-ERROR property={prop} task={t}\n{e}")
        for x in inconclusive:
            print(f"INCONCLUSIVE property={prop} {x}")
        for x in unreproduced:
            print(f"UNREPRODUCED property={prop} {x}")
        code = code or 2
    print(
        f"{prop} tier={tier}: tasks={len(results)} paths={n_paths} obligations={obligations} discharged={discharged} "
        f"violations={len(violations)} known={len(known_hits)} inconclusive={len(inconclusive)} wall={wall:.1f}s -> exit {code}"
    )
    sys.exit(code)


def _z3v():
    try:
        import z3

        return z3.get_version_string()
    except Exception:
        return "?"


if __name__ == "__main__":
    main()
