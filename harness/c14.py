"""C14 — data ingestion yields one canonical tensor form and rejects malformed input (the part inside leaspy's own code).

Real IndividualData.add_observations runs with symbolic ages (numpy object arrays of symbolic scalars: `in`, `bisect`, `np.concatenate` run for real and every
relative order / coincidence of ages is a solver-decided path); real Dataset._construct_values / _construct_timepoints / _compute_L2_norm / get_values_patient
run on a stand-in Data with symbolic float32 observations (possibly NaN) and individuals with different numbers of visits (tensor factories stubbed).
The dataframe readers (pandas) are outside the reach of the technique and not claimed.
"""
from __future__ import annotations

import itertools

import numpy as np
import torch
import z3

from harness.realmodel import *  # noqa
from leaspy.exceptions import LeaspyDataInputError
from leaspy.io.data.dataset import Dataset
from leaspy.io.data.individual_data import IndividualData
from vcheck.common import Recorder, guarded, model_value

PROP = "C14"
META = dict(
    explanation="add_observations: for every insertion order and every relative order of k symbolic ages, stored ages are strictly increasing, observations follow the "
    "same permutation, a repeated age raises LeaspyDataInputError. Dataset tensors: mask = 1 exactly at real visits with a non-NaN value, values and ages are "
    "zero elsewhere and aligned, visit / observation counters equal the symbolic counts, get_values_patient restores NaN exactly at mask 0.",
    bounds="k <= 3 ages (4 thorough); 2-3 individuals with 1..2 visits, 2 features, float32 values incl. NaN",
    outside="everything in the *_dataframe_data_reader.py files, Data.from_dataframe, Dataset.to_pandas (pandas / numpy C code): row-order independence at table level, "
    "malformed-table rejection and 'the caller's table is never modified' are NOT claimed",
    assumptions=["ages are not NaN (the readers reject them)", "torch.zeros / zeros_like / tensor factories return symbolic containers inside Dataset construction"],
)


def add_observations_task(k):
    task = f"add_observations[k={k}]"

    def body():
        rec = Recorder(PROP, task, [IndividualData.add_observations])
        hold = {}
        script = f"""
import itertools, numpy as np
from leaspy.io.data.individual_data import IndividualData
from leaspy.exceptions import LeaspyDataInputError
bad = []
for ages in itertools.product([61.5, 70.0, 64.25, 70.0][:{k} + 1], repeat={k}):
    ind = IndividualData('x')
    try:
        for j, t in enumerate(ages): ind.add_observations([t], [[float(j)]])
        raised = False
    except LeaspyDataInputError: raised = True
    dup = len(set(ages)) < len(ages)
    if raised != dup: bad.append(('refusal', ages)); continue
    if not raised:
        if list(ind.timepoints) != sorted(ages) or [ages[int(o[0])] for o in ind.observations] != list(ind.timepoints): bad.append(('order', ages, list(ind.timepoints), ind.observations.tolist()))
print(bad[:2]); sys.exit(1 if bad else 0)
"""

        def run():
            ts = [st.SymScalar(z3.FP(f"age{j}", T.F64), torch.float64) for j in range(k)]
            for t in ts:
                T.assume(z3.Not(z3.Or(z3.fpIsNaN(t.term), z3.fpIsInf(t.term))))
            ind = IndividualData("x")
            hold.update(ts=ts, ind=ind)
            # insertion one at a time and in one call (both entry styles of the readers)
            ind.add_observations(ts[:1], [[0.0]])
            ind.add_observations(ts[1:], [[float(j)] for j in range(1, k)])
            return ind

        for c, res in st.explore(run, "F"):
            rec.end_path(c)
            ts, ind = hold["ts"], hold["ind"]
            dup = z3.Or(*[z3.fpEQ(a.term, b.term) for a, b in itertools.combinations(ts, 2)])
            if isinstance(res, LeaspyDataInputError):
                rec.prove(f"refused=>duplicate#{rec.paths}", dup, replay=lambda m_: script, key="C14:add_observations", what="a visit is refused although no age is repeated")
                continue
            if isinstance(res, Exception):
                raise res
            tp, obs = list(ind.timepoints), ind.observations
            rec.obligations += 1
            labels = [int(o[0]) for o in obs]
            aligned = sorted(labels) == list(range(k)) and all((tp[i].term if isinstance(tp[i], st.SymScalar) else None) is not None and tp[i].term.eq(ts[labels[i]].term) for i in range(k))
            if aligned:
                rec.discharged += 1
            else:
                rec.violation_from_script(f"alignment#{rec.paths}", "C14:add_observations", script, what="observations do not follow the permutation of their ages")
                continue
            rec.prove(f"accepted=>no-duplicate#{rec.paths}", z3.Not(dup), replay=lambda m_: script, key="C14:add_observations", what="a repeated age is accepted")
            if k > 1:
                rec.prove(f"sorted#{rec.paths}", z3.And(*[z3.fpLT(tp[i].term, tp[i + 1].term) for i in range(k - 1)]), replay=lambda m_: script, key="C14:add_observations", what="stored ages are not strictly increasing")
            if rec.paths <= 2:
                rec.sample({"k": k, "stored_order_of_inputs": labels})
        return rec.result()

    return guarded(PROP, task, body)


class _Ind:
    def __init__(self, name, n_vis, d):
        self.timepoints = np.array([st.SymScalar(z3.FP(f"{name}_t{j}", T.F64), torch.float64) for j in range(n_vis)], dtype=object)
        self.observations = np.empty((n_vis, d), dtype=object)
        for j in range(n_vis):
            for k in range(d):
                self.observations[j, k] = st.SymScalar(z3.FP(f"{name}_y{j}_{k}", T.F32), torch.float32)


def dataset_task(visits):
    task = f"dataset-tensors[visits={visits}]"

    def body():
        rec = Recorder(PROP, task, [Dataset._construct_values, Dataset._construct_timepoints, Dataset._compute_L2_norm, Dataset.get_values_patient])
        st.new_context("F")
        d = 2
        data = [_Ind(f"p{i}", nv, d) for i, nv in enumerate(visits)]
        ds = Dataset.__new__(Dataset)
        ds.n_individuals = len(data)
        ds.dimension = d
        saved = (torch.zeros, torch.zeros_like, torch.tensor)

        def zeros(*shape, **kw):
            if len(shape) == 1 and isinstance(shape[0], (tuple, list)):
                shape = tuple(shape[0])
            return st.const(saved[0](shape, **{k_: v for k_, v in kw.items() if k_ == "dtype"}))

        def sym_tensor(x, dtype=None, **kw):
            arr = np.array(x, dtype=object)
            if not any(isinstance(e, st.SymScalar) for e in arr.reshape(-1)):
                return saved[2](x, dtype=dtype, **kw)
            out = np.empty(arr.shape, dtype=object)
            for idx in np.ndindex(*arr.shape):
                e = arr[idx]
                out[idx] = T.cast(e.term, dtype or torch.float32, e.dtype) if isinstance(e, st.SymScalar) else T.const_of(float(e), dtype or torch.float32)
            return st.mk(out, dtype or torch.float32)

        torch.zeros, torch.tensor = zeros, sym_tensor
        rec.stubs += ["torch.zeros / torch.tensor -> symbolic containers", "Data -> list of stand-in individuals with symbolic ages / observations"]
        try:
            ds._construct_values(data)
            ds._construct_timepoints(data)
            ds._compute_L2_norm()
            restored = [ds.get_values_patient(i) for i in range(len(data))]
        finally:
            torch.zeros, torch.zeros_like, torch.tensor = saved
        script = f"""
import numpy as np
from leaspy.io.data.dataset import Dataset
class I:
    def __init__(s, t, y): s.timepoints = np.array(t); s.observations = np.array(y)
nan = float('nan')
data = [I([60.0 + j for j in range(nv)], [[0.25 * (j + 1), nan if (i + j) % 2 else -0.5] for j in range(nv)]) for i, nv in enumerate({list(visits)!r})]
ds = Dataset.__new__(Dataset); ds.n_individuals = len(data); ds.dimension = 2
ds._construct_values(data); ds._construct_timepoints(data); ds._compute_L2_norm()
bad = []
for i, ind in enumerate(data):
    nv = len(ind.timepoints)
    for j in range(ds.n_visits_max):
        for k in range(2):
            real = j < nv and not np.isnan(ind.observations[j, k])
            if bool(ds.mask[i, j, k]) != real: bad.append(('mask', i, j, k))
            exp = float(np.float32(ind.observations[j, k])) if real else 0.0
            if float(ds.values[i, j, k]) != exp: bad.append(('value', i, j, k))
        if float(ds.timepoints[i, j]) != (float(np.float32(ind.timepoints[j])) if j < nv else 0.0): bad.append(('time', i, j))
    back = ds.get_values_patient(i)
    if not np.array_equal(np.isnan(back.numpy()), np.isnan(ind.observations)): bad.append(('nan restore', i))
if ds.n_observations != int(ds.mask.sum()) or ds.n_visits_per_individual != {list(visits)!r}: bad.append(('counts',))
if abs(float(ds.L2_norm) - float((ds.mask * ds.values ** 2).sum())) > 1e-6: bad.append(('L2',))
print(bad[:3]); sys.exit(1 if bad else 0)
"""
        V, M, TP = st.to_terms(ds.values), st.to_terms(ds.mask), st.to_terms(ds.timepoints)
        nmax = max(visits)
        rec.obligations += 1
        if ds.n_visits_per_individual == list(visits) and ds.n_visits_max == nmax and V.shape == (len(data), nmax, d) and TP.shape == (len(data), nmax):
            rec.discharged += 1
        else:
            rec.violation_from_script("shapes", "C14:dataset-shapes", script, what="visit counters / tensor shapes")
            return rec.result()
        one, zero = z3.FPVal(1.0, T.F32), z3.FPVal(0.0, T.F32)
        count = z3.IntVal(0)
        for i, ind in enumerate(data):
            for j in range(nmax):
                real_visit = j < visits[i]
                tgoal = T.same_value(TP[i, j], T.cast(ind.timepoints[j].term, torch.float32, torch.float64)) if real_visit else z3.fpEQ(TP[i, j], zero)
                rec.prove(f"time[{i},{j}]", tgoal, replay=lambda m_: script, key="C14:dataset-times", what="ages not aligned / padding not zero")
                for k in range(d):
                    if real_visit:
                        y = ind.observations[j, k].term
                        obs = z3.Not(z3.fpIsNaN(y))
                        goal = z3.And(z3.If(obs, z3.fpEQ(M[i, j, k], one), z3.fpEQ(M[i, j, k], zero)), z3.If(obs, T.same_value(V[i, j, k], y), z3.fpEQ(V[i, j, k], zero)))
                        count = count + z3.If(obs, 1, 0)
                    else:
                        goal = z3.And(z3.fpEQ(M[i, j, k], zero), z3.fpEQ(V[i, j, k], zero))
                    rec.prove(f"entry[{i},{j},{k}]", goal, replay=lambda m_: script, key="C14:dataset-mask-values", what="mask is not exactly (real visit and value present) / value not aligned or not zero under the mask")
            # NaN restored exactly at mask 0
            R = st.to_terms(restored[i])
            for j in range(visits[i]):
                for k in range(d):
                    y = ind.observations[j, k].term
                    rec.prove(f"restore[{i},{j},{k}]", T.same_value(R[j, k], y), replay=lambda m_: script, key="C14:dataset-restore", what="get_values_patient does not give back the value / NaN")
        n_obs = ds.n_observations
        n_obs_t = n_obs.term if isinstance(n_obs, st.SymScalar) else z3.IntVal(int(n_obs))
        rec.prove("n_observations", n_obs_t == count, replay=lambda m_: script, key="C14:dataset-counts", timeout_ms=60000, what="observation count is not the number of present entries")
        rec.sample({"visits_per_individual": list(visits), "features": d, "values": "float32 incl. NaN"})
        rec.end_path()
        return rec.result()

    return guarded(PROP, task, body)


def tasks(tier, seed=0):
    ts = [("add_observations_task", dict(k=3)), ("dataset_task", dict(visits=(2, 1))), ("dataset_task", dict(visits=(1, 2, 2)))]
    if tier == "thorough":
        ts += [("add_observations_task", dict(k=4)), ("dataset_task", dict(visits=(3, 1, 2)))]
    return ts
