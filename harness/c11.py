"""C11 — seeded runs are reproducible and independent of logging and process history (the mechanisms that a solver can decide).

The core statement - bit-identical whole fit / personalize / simulate runs - is a whole-program property of C-level RNG streams and float
kernels and is NOT decided here (see DESIGN.md).  Decided: (1) logging never aborts and only reads (CrossHair on the real OutputsSettings +
FitOutputManager.iteration; symbolic-tensor run of State.save / _get_value_as_dict_of_lists); (2) re-seeding covers random, numpy and torch and
happens before _run (CrossHair on BaseAlgorithm._initialize_seed / run); (3) no result depends on the iteration order of a Python set
(NamedVariables._auto_vars evaluated under every order of the set of individual variables, IEEE float32).
"""
from __future__ import annotations

import itertools

import numpy as np
import torch
import z3

from harness.realmodel import *  # noqa
from leaspy.algo.base import BaseAlgorithm
from leaspy.algo.fit.fit_output_manager import FitOutputManager
from leaspy.algo.settings import OutputsSettings
from leaspy.variables.specs import NamedVariables
from vcheck.common import Recorder, guarded, tensor_literal

PROP = "C11"
META = dict(
    explanation="CrossHair: every logging configuration accepted by OutputsSettings lets FitOutputManager.iteration return normally at every iteration; _initialize_seed "
    "seeds random, numpy and torch with the given seed and run() does it before _run. Symbolic tensors: State.save / _get_value_as_dict_of_lists leave every cached "
    "value, every independent value and the pending fork untouched; the sum of individual regularity terms is bit-identical (float32) under every iteration order of "
    "the underlying Python set. Two OBSERVED (not symbolic) obligations on real tiny runs: global RNG states are bit-identical around every logging call, and a seeded 4-iteration fit + 12-iteration personalization is bit-identical after four enumerated process histories (nothing, default dtype switched to float64, generators consumed and re-seeded, an earlier seeded run).",
    bounds="periodicities in {None, -1..3}, iteration <= 6, path given or not; seeds <= 1e5; 3 individual variables (xi, tau, sources), 2 individuals",
    outside="bit-identity of whole seeded runs for every history / configuration: whole-program property of global RNG state and float kernels - not decidable by this technique; only the enumerated histories above are observed",
    assumptions=["filesystem effects of OutputsSettings and file writing of State.save are stubbed", "print / save / plot actions of the output manager are recording stubs"],
)


def crosshair_task():
    task = "crosshair[logging+seeding]"

    def body():
        from vcheck.crosshair_util import run_crosshair, record

        rec = Recorder(PROP, task, [OutputsSettings.__init__, OutputsSettings._set_param_as_int_or_ignore, OutputsSettings._set_plot_patient_periodicity, OutputsSettings._create_root_folder,
                                    FitOutputManager.__init__, FitOutputManager.iteration, BaseAlgorithm._initialize_seed, BaseAlgorithm.run])
        path = "/verif/crosshair_harness/c11_logging.py"
        res = run_crosshair(path, per_condition_timeout=150)
        record(rec, task, res, path, key_of=lambda fn, call: {"logging_never_aborts": "C11:logging-aborts"}.get(fn))
        return rec.result()

    return guarded(PROP, task, body)


def readonly_task(kind, kw):
    task = f"logging-readonly[{cfg_name(kind, kw)}]"

    def body():
        import builtins
        import leaspy.variables.state as state_mod

        m = build_model(kind, **kw)
        rec = Recorder(PROP, task, [State.save, State._get_value_as_dict_of_lists, State.get_tensor_value])
        st.new_context("R")
        s, ins = populate(m, 2, 2)
        # a pending fork and a partially filled cache
        s["tau"] = s["tau"] + 1
        for n in ("nll_attach", "v0"):
            s[n]
        s.track_variables(m.tracked_variables)
        before_vals = dict(s._values)
        before_fork = None if s._last_fork is None else dict(s._last_fork)
        written = []

        class _F:
            def __enter__(self):
                return self

            def __exit__(self, *a):
                return False

            def write(self, x):
                written.append(x)

        saved_open = builtins.open
        state_mod.open = lambda *a, **k: _F()
        rec.stubs.append("open() in leaspy.variables.state -> in-memory sink")
        try:
            s.save("/nonexistent", iteration=3)
        finally:
            del state_mod.open
        errs = []
        for k, v in before_vals.items():
            if v is not None and s._values[k] is not v:
                errs.append(f"cached value of {k} replaced by logging")
        if (s._last_fork is None) != (before_fork is None) or (before_fork is not None and any(s._last_fork[k] is not before_fork[k] for k in before_fork)):
            errs.append("pending fork modified by logging")
        # nodes newly cached by logging are fresh (C01 oracle: recompute on a clone)
        fresh = s.clone(disable_auto_fork=True)
        for k, v in s._values.items():
            if before_vals[k] is None and v is not None:
                fresh._values[k] = None
                a, b = value_terms(fresh[k])[0], value_terms(v)[0]
                if a.shape != b.shape or not all(x.eq(y) for x, y in zip(a.reshape(-1), b.reshape(-1))):
                    errs.append(f"value of {k} cached by logging is not the fresh value")
        rec.obligations += 1
        if not errs and written:
            rec.discharged += 1
        else:
            rec.violation_from_script("readonly", "C11:logging-mutates-state", f"""
{replay_prologue(kind, kw, ins, _Half())}
import leaspy.variables.state as sm
class F:
    def __enter__(s_): return s_
    def __exit__(s_, *a): return False
    def write(s_, x): pass
sm.open = lambda *a, **k: F()
s['tau'] = s['tau'] + 1; s['nll_attach']; s.track_variables(m.tracked_variables)
before = dict(s._values); fork = dict(s._last_fork)
s.save('/nonexistent', iteration=3)
bad = [k for k, v in before.items() if v is not None and s._values[k] is not v] + (['fork'] if any(s._last_fork[k] is not fork[k] for k in fork) else [])
print(bad); sys.exit(1 if bad else 0)
""", what=str(errs[:3]) or "nothing written")
        rec.sample({"model": cfg_name(kind, kw), "tracked": sorted(m.tracked_variables)[:6], "rows_written": len(written)})
        rec.end_path()
        return rec.result()

    return guarded(PROP, task, body)


class _Half:
    def eval(self, t, model_completion=True):
        s = t.sort()
        return z3.BoolVal(True) if s == z3.BoolSort() else z3.RealVal("1/2")


class _OrderedSet(set):
    """a set whose iteration order is imposed (models the arbitrary, hash-seed dependent order of a Python set)"""

    def __init__(self, items):
        super().__init__(items)
        self._order = list(items)

    def __iter__(self):
        return iter(self._order)


def set_order_task(kind, kw):
    task = f"set-order[{cfg_name(kind, kw)}]"

    def body():
        m = build_model(kind, **kw)
        rec = Recorder(PROP, task, [NamedVariables._auto_vars.fget, NamedVariables.__setitem__])
        st.new_context("F")
        specs = m.get_variables_specs()
        names = sorted(specs._latent_ind_vars)
        n_ind = 2
        vals = {f"nll_regul_{v}_ind": st.sym(f"r_{v}", (n_ind,)) for v in names}
        outs = {}
        for perm in itertools.permutations(names):
            specs._latent_ind_vars = _OrderedSet(perm)
            f = specs["nll_regul_ind_sum_ind"].f
            outs[perm] = st.to_terms(f(**{k: vals[k] for k in f.parameters}))
        rec.stubs.append("iteration order of the set NamedVariables._latent_ind_vars -> every permutation")
        ref_perm = tuple(names)

        def rp(model):
            lits = {k: tensor_literal(v, model) for k, v in vals.items()}
            return f"""
import itertools
from leaspy.models.factory import model_factory
m = model_factory({kind!r}, **{kw!r})
vals = {{{', '.join(f'{k!r}: {v}' for k, v in lits.items())}}}
class OS(set):
    def __init__(s, it): super().__init__(it); s._o = list(it)
    def __iter__(s): return iter(s._o)
outs = []
for perm in itertools.permutations(sorted(m.get_variables_specs()._latent_ind_vars)):
    specs = m.get_variables_specs(); specs._latent_ind_vars = OS(perm)
    f = specs['nll_regul_ind_sum_ind'].f
    outs.append(f(**{{k: vals[k] for k in f.parameters}}))
bad = [o for o in outs if not torch.equal(o, outs[0])]
print(outs[0], bad[:1]); sys.exit(1 if bad else 0)
"""

        for perm, o in outs.items():
            if perm == ref_perm:
                continue
            for i in range(n_ind):
                rec.prove(f"{'>'.join(perm)}[{i}]", T.same_value(o[i], outs[ref_perm][i]), replay=rp, key="C11:set-iteration-order", timeout_ms=90000,
                          what="the sum of individual regularity terms depends (bitwise) on the iteration order of a Python set")
        rec.sample({"model": cfg_name(kind, kw), "individual_variables": names, "orders": len(outs)})
        rec.end_path()
        return rec.result()

    return guarded(PROP, task, body)


def tasks(tier, seed=0):
    kw = dict(features=["a", "b"], source_dimension=1)
    ts = [("crosshair_task", {}), ("readonly_task", dict(kind="logistic", kw=kw)), ("set_order_task", dict(kind="logistic", kw=kw))]
    if tier == "thorough":
        ts += [("readonly_task", dict(kind="linear", kw=dict(features=["a", "b"], source_dimension=0))), ("set_order_task", dict(kind="linear", kw=kw)),
               ("set_order_task", dict(kind="joint", kw=dict(features=["a", "b"], source_dimension=1, nb_events=1)))]
    return ts


def logging_rng_task():
    """Logging must not consume randomness: during a real (tiny, 3-iteration) seeded fit with every logging action enabled, the global RNG states of torch,
    numpy and random are compared bit for bit before and after each call of the output manager (the environment is observed, nothing is sampled)."""
    task = "logging-consumes-no-randomness"

    def body():
        import random
        import shutil
        import tempfile

        import pandas as pd
        import matplotlib

        matplotlib.use("Agg")
        from leaspy.algo import AlgorithmSettings
        from leaspy.algo.fit.fit_output_manager import FitOutputManager
        from leaspy.io.data import Data
        from leaspy.models import LogisticModel

        rec = Recorder(PROP, task, [FitOutputManager.iteration, FitOutputManager.save_plot_patient_reconstructions, FitOutputManager.save_plot_convergence_model_parameters, FitOutputManager.save_model_parameters_convergence])
        tmp = tempfile.mkdtemp(prefix="verif_c11_")
        changed = []
        try:
            rng = np.random.default_rng(0)
            rows = [(f"s{i}", 60.0 + 2 * j + i, float(np.clip(0.2 + 0.06 * j + 0.01 * i + 0.01 * rng.standard_normal(), 0.01, 0.99)), float(np.clip(0.3 + 0.04 * j + 0.01 * rng.standard_normal(), 0.01, 0.99))) for i in range(8) for j in range(3)]
            data = Data.from_dataframe(pd.DataFrame(rows, columns=["ID", "TIME", "a", "b"]))
            settings = AlgorithmSettings("mcmc_saem", n_iter=3, seed=0, progress_bar=False)
            settings.set_logs(path=tmp, print_periodicity=1, save_periodicity=1, plot_periodicity=1, plot_patient_periodicity=1, overwrite_logs_folder=True)
            orig = FitOutputManager.iteration
            calls = []

            def watched(self, algo, model, dataset):
                before = (torch.get_rng_state().clone(), np.random.get_state()[1].copy(), random.getstate())
                orig(self, algo, model, dataset)
                after = (torch.get_rng_state(), np.random.get_state()[1], random.getstate())
                calls.append(algo.current_iteration)
                if not torch.equal(before[0], after[0]):
                    changed.append(("torch", algo.current_iteration))
                if not np.array_equal(before[1], after[1]):
                    changed.append(("numpy", algo.current_iteration))
                if before[2] != after[2]:
                    changed.append(("random", algo.current_iteration))

            FitOutputManager.iteration = watched
            import io
            import contextlib as _cl

            try:
                with _cl.redirect_stdout(io.StringIO()):
                    LogisticModel("logistic", source_dimension=1).fit(data, algorithm_settings=settings)
            finally:
                FitOutputManager.iteration = orig
        finally:
            shutil.rmtree(tmp, ignore_errors=True)
        rec.obligations += 1
        if not changed and len(calls) == 3:
            rec.discharged += 1
        else:
            rec.violation_from_script("rng-state", "C11:logging-consumes-randomness", _rng_replay(), what=f"a logging action changed a global RNG state: {changed[:3]} (calls {calls})")
        rec.sample({"fit": "8 subjects x 3 visits, 3 iterations, all logging actions every iteration", "rng_states_compared": ["torch", "numpy", "random"], "calls": calls})
        return rec.result()

    return guarded(PROP, task, body)


def _rng_replay():
    return """
import random, shutil, tempfile, io, contextlib, numpy as np, pandas as pd, matplotlib
matplotlib.use('Agg')
from leaspy.algo import AlgorithmSettings
from leaspy.io.data import Data
from leaspy.models import LogisticModel
rng = np.random.default_rng(0)
rows = [(f's{i}', 60.0 + 2 * j + i, float(np.clip(0.2 + 0.06 * j + 0.01 * i + 0.01 * rng.standard_normal(), 0.01, 0.99)), float(np.clip(0.3 + 0.04 * j + 0.01 * rng.standard_normal(), 0.01, 0.99))) for i in range(8) for j in range(3)]
data = Data.from_dataframe(pd.DataFrame(rows, columns=['ID', 'TIME', 'a', 'b']))
def fit(logs):
    s = AlgorithmSettings('mcmc_saem', n_iter=3, seed=0, progress_bar=False)
    tmp = tempfile.mkdtemp(prefix='verif_c11_')
    if logs: s.set_logs(path=tmp, print_periodicity=1, save_periodicity=1, plot_periodicity=1, plot_patient_periodicity=1, overwrite_logs_folder=True)
    m = LogisticModel('logistic', source_dimension=1)
    with contextlib.redirect_stdout(io.StringIO()): m.fit(data, algorithm_settings=s)
    shutil.rmtree(tmp, ignore_errors=True)
    return {k: v.clone() for k, v in m.parameters.items()}
a, b = fit(False), fit(True)
bad = [k for k in a if not torch.equal(a[k], b[k])]
print('parameters that differ between the seeded fit without and with logging:', bad); sys.exit(1 if bad else 0)
"""


_HISTORY_SCRIPT = """
import random, io, contextlib, numpy as np, pandas as pd
from leaspy.io.data import Data, Dataset
from leaspy.models import model_factory
rng = np.random.default_rng(0)
rows = [(f's{i}', 60.0 + 2 * j + i, float(np.clip(0.2 + 0.06 * j + 0.01 * i + 0.01 * rng.standard_normal(), 0.01, 0.99)), float(np.clip(0.3 + 0.04 * j + 0.01 * rng.standard_normal(), 0.01, 0.99))) for i in range(8) for j in range(3)]
df = pd.DataFrame(rows, columns=['ID', 'TIME', 'a', 'b'])
def nothing(): pass
def float64_default(): torch.set_default_dtype(torch.float64)       # unrelated numerical code in the same interpreter
def rng_consumed(): torch.rand(1000); np.random.rand(10); random.random(); torch.manual_seed(123); np.random.seed(7); random.seed(9)
def earlier_run():
    ds = Dataset(Data.from_dataframe(df)); m = model_factory('logistic', source_dimension=1); m.initialize(ds)
    with contextlib.redirect_stdout(io.StringIO()): m.fit(ds, 'mcmc_saem', seed=5, n_iter=3, progress_bar=False)
def pipeline(before_fit, before_perso, sources):
    torch.set_default_dtype(torch.float32)
    try:
        ds = Dataset(Data.from_dataframe(df)); m = model_factory('logistic', source_dimension=sources); m.initialize(ds)
        before_fit()
        with contextlib.redirect_stdout(io.StringIO()): m.fit(ds, 'mcmc_saem', seed=0, n_iter=4, progress_bar=False)
        params = {k: v.detach().clone() for k, v in m.parameters.items()}
        before_perso()
        with contextlib.redirect_stdout(io.StringIO()): ips = m.personalize(ds, 'mean_posterior', seed=0, n_iter=12, progress_bar=False)
        return params, ips.to_dataframe()
    finally:
        torch.set_default_dtype(torch.float32)
bad = []
for sources in (0, 1):
    ref = pipeline(nothing, nothing, sources)
    for name, h in (('nothing (plain repetition)', nothing), ('default dtype switched to float64', float64_default), ('generators consumed and re-seeded', rng_consumed), ('an earlier seeded run on another model', earlier_run)):
        for where in ('fit', 'personalize'):
            try: got = pipeline(h if where == 'fit' else nothing, h if where == 'personalize' else nothing, sources)
            except Exception as e: bad.append(f'sources={sources}: seeded run aborted after history [{name}] before {where}: {type(e).__name__}: {str(e)[:80]}'); continue
            if set(got[0]) != set(ref[0]) or any(got[0][k].dtype != ref[0][k].dtype or not torch.equal(got[0][k], ref[0][k]) for k in ref[0]) or not ref[1].equals(got[1]):
                bad.append(f'sources={sources}: seeded fit / personalize differs after history [{name}] before {where}')
print(bad); sys.exit(1 if bad else 0)
"""


def history_task():
    """Seeded runs do not depend on what happened earlier in the process: a seeded tiny fit + personalization is repeated after each of four
    process histories (nothing, default dtype switched, generators consumed / re-seeded, an earlier run) and compared bit for bit.
    An *observed* obligation (four enumerated histories on real runs), not a symbolic one: whole-run reproducibility is outside the solver's reach."""
    task = "process-history-independence"

    def body():
        from vcheck.common import run_replay

        rec = Recorder(PROP, task, [])
        rec.obligations += 1
        shows, path, out = run_replay(PROP, task, _HISTORY_SCRIPT, timeout=900)
        if shows:
            rec.violations.append({"key": "C11:process-history", "obligation": task, "what": "a seeded run depends on earlier activity in the interpreter: " + out.strip()[-400:], "replay": path, "output": out[-600:]})
        elif "[]" in out:
            rec.discharged += 1
        else:
            rec.unreproduced.append(f"{task}: the observation script did not complete: {out[-300:]}")
        rec.sample({"histories": ["nothing", "default dtype float64", "generators consumed and re-seeded", "earlier seeded run"], "runs": "4-iteration fit + 12-iteration mean-posterior personalization, sources 0 and 1", "kind": "observed, enumerated"})
        return rec.result()

    return guarded(PROP, task, body)


_tasks_c11 = tasks


def tasks(tier, seed=0):
    return _tasks_c11(tier, seed) + [("logging_rng_task", {}), ("history_task", {})]
