"""C07 — individuals are conditionally independent and order-equivariant.

Real State/DAG of each model kind, symbolic everything.  (i) non-interference: replacing every symbol that belongs to the
other individuals (data, mask, ages, latent rows) leaves individual i's terms provably identical; (ii) batch vs alone: the
row computed in a batch equals the value computed with that individual alone; (iii) totals are the sums of the per-individual
terms; (iv) permuting individuals permutes the per-individual outputs and leaves totals equal (reals).  The individual
sampler's acceptance decision for row i is covered in C03 (per-row symbols only).
"""
from __future__ import annotations

import itertools

import numpy as np
import torch
import z3

from harness.realmodel import *  # noqa
from leaspy.models.obs_models import ObservationModel
from leaspy.utils.weighted_tensor import sum_dim
from leaspy.variables.specs import IndividualLatentVariable, NamedVariables
from vcheck.common import Recorder, guarded, tensor_literal

PROP = "C07"
META = dict(
    explanation="On the real State/DAG: per-individual outputs (model rows, nll_attach_ind, nll_regul_<v>_ind, nll_regul_ind_sum_ind) of "
    "individual i are proved (a) syntactically/semantically independent of every symbol of the other individuals, (b) equal to the value "
    "computed for that individual alone, (c) to sum to the population totals, (d) to be permuted by a permutation of the individuals.",
    bounds="2-3 individuals, 2 visits, 2 features, sources 0..1, logistic / linear (+ joint, shared-speed in thorough); reals; one step of the individual sampler in float32 (2 individuals, 2-safety, likelihoods may overflow)",
    outside="bit-identical float statements involving reductions; joblib workers (n_jobs); scipy optimiser results per subject",
    assumptions=["floats as reals (so 'up to summation order' is granted)", "transcendental functions abstracted consistently"],
)

IND_OUTPUTS = ["model", "nll_attach_ind", "nll_regul_ind_sum_ind"]
TOTALS = [("nll_attach", "nll_attach_ind"), ("nll_regul_ind_sum", "nll_regul_ind_sum_ind")]


def ind_outputs(m, s):
    outs = {k: value_terms(s[k])[0] for k in IND_OUTPUTS}
    for v in by_type(m.dag, IndividualLatentVariable):
        outs[f"nll_regul_{v}_ind"] = value_terms(s[f"nll_regul_{v}_ind"])[0]
    return outs


def build_state(m, shared, ind_syms, order):
    """state whose individuals are `order` (list of keys into ind_syms); shared = parameters + population values"""
    s = fresh_state(m)
    with s.auto_fork(None):
        for k, v in shared.items():
            s[k] = v
        for name in by_type(m.dag, IndividualLatentVariable):
            s[name] = st.mk(np.stack([ind_syms[o][name].sym for o in order], axis=0), torch.float32)
        t = st.mk(np.stack([ind_syms[o]["t"].sym for o in order], axis=0), torch.float32)
        y = st.mk(np.stack([ind_syms[o]["y"].sym for o in order], axis=0), torch.float32)
        mask = st.mk(np.stack([ind_syms[o]["mask"].sym for o in order], axis=0), torch.bool)
        m._put_data_timepoints(s, WeightedTensor(t, mask.any(dim=-1)))
        s["y"] = WeightedTensor(y, weight=mask)
    return s


def make_individual(m, tag, n_vis):
    d = m.dimension
    ind = {}
    tmp = fresh_state(m)
    for name, shp in individual_shapes(tmp, 1).items():
        ind[name] = st.sym(f"{tag}_{name}", shp[1:])
    ind["t"] = st.sym(f"{tag}_t", (n_vis,))
    ind["y"] = st.sym(f"{tag}_y", (n_vis, d))
    ind["mask"] = st.sym(f"{tag}_mask", (n_vis, d), torch.bool)
    return ind


def _replay(kind, kw, shared, inds, n_vis):
    def rp(model):
        names = list(inds)
        src = "from leaspy.models.factory import model_factory\nfrom leaspy.utils.weighted_tensor import WeightedTensor\nfrom leaspy.variables.state import State, StateForkType\n"
        src += f"m = model_factory({kind!r}, **{kw!r}); m._initialize_state()\nshared = {{}}\nIND = {{}}\n"
        for k, v in shared.items():
            lit = tensor_literal(v, model) + (".abs() + 1e-3" if k.endswith("_std") else "")
            src += f"shared[{k!r}] = {lit}\n"
        for tag, ind in inds.items():
            src += f"IND[{tag!r}] = {{" + ", ".join(f"{k!r}: {tensor_literal(v, model)}" for k, v in ind.items()) + "}\n"
        src += """
LAT = [k for k in next(iter(IND.values())) if k not in ('t', 'y', 'mask')]
def build(order):
    s = State(m.dag, auto_fork_type=StateForkType.REF)
    with s.auto_fork(None):
        for k, v in shared.items(): s[k] = v
        for k in LAT: s[k] = torch.stack([IND[o][k] for o in order])
        mask = torch.stack([IND[o]['mask'] for o in order])
        m._put_data_timepoints(s, WeightedTensor(torch.stack([IND[o]['t'] for o in order]), mask.any(-1)))
        s['y'] = WeightedTensor(torch.stack([IND[o]['y'] for o in order]), weight=mask)
    return s
OUT = ['model', 'nll_attach_ind', 'nll_regul_ind_sum_ind'] + [f'nll_regul_{k}_ind' for k in LAT]
def get(s):
    return {k: (s[k].weighted_value if isinstance(s[k], WeightedTensor) else s[k]).double() for k in OUT}
tags = list(IND)
full = get(build(tags)); bad = []
for pos, tag in enumerate(tags):
    alone = get(build([tag]))
    for k in OUT:
        if not torch.allclose(full[k][pos], alone[k][0], rtol=1e-5, atol=1e-6): bad.append(('alone', tag, k))
perm = list(reversed(tags)); pf = get(build(perm))
for pos, tag in enumerate(perm):
    for k in OUT:
        if not torch.allclose(pf[k][pos], full[k][tags.index(tag)], rtol=1e-5, atol=1e-6): bad.append(('perm', tag, k))
s = build(tags)
for tot, ind in (('nll_attach', 'nll_attach_ind'), ('nll_regul_ind_sum', 'nll_regul_ind_sum_ind')):
    if not torch.allclose(s[tot].double(), s[ind].double().sum(), rtol=1e-5, atol=1e-6): bad.append(('total', tot))
# other individuals' data made extreme: row 0 must not move
if len(tags) > 1:
    import copy
    saved = copy.deepcopy(IND)
    for tag in tags[1:]:
        IND[tag]['y'] = IND[tag]['y'] * 7 + 3; IND[tag]['t'] = IND[tag]['t'] - 11; IND[tag]['mask'] = ~IND[tag]['mask']
        for k in LAT: IND[tag][k] = IND[tag][k] * -2 + 1
    moved = get(build(tags))
    for k in OUT:
        if not torch.equal(moved[k][0], full[k][0]): bad.append(('interference', k))
print('violations:', bad)
sys.exit(1 if bad else 0)
"""
        return src

    return rp


def independence_task(kind, kw, n_ind=2, n_vis=2):
    task = f"independence[{cfg_name(kind, kw)},n={n_ind},v={n_vis}]"

    def body():
        m = build_model(kind, **kw)
        rec = Recorder(PROP, task, [ObservationModel.get_variables_specs, NamedVariables._auto_vars.fget, sum_dim, type(m).model_with_sources, State.__getitem__])
        hold = {}

        def run():
            tmp = fresh_state(m)
            shared = {}
            shared.update(put_symbolic_parameters(tmp))
            shared.update(put_symbolic_population(tmp))
            tags = [f"P{i}" for i in range(n_ind)]
            inds = {tag: make_individual(m, tag, n_vis) for tag in tags}
            others = {tag: make_individual(m, tag + "x", n_vis) for tag in tags}
            hold.update(shared=shared, inds=inds)
            full = ind_outputs(m, build_state(m, shared, inds, tags))
            res = {"full": full, "tags": tags}
            # (i) replace all the *other* individuals by fresh ones, keep individual 0
            mixed = dict(inds)
            for tag in tags[1:]:
                mixed[tag] = others[tag]
            res["replaced"] = ind_outputs(m, build_state(m, shared, mixed, tags))
            # (ii) alone
            res["alone"] = {tag: ind_outputs(m, build_state(m, shared, inds, [tag])) for tag in tags}
            # (iv) permutations
            perms = [p for p in itertools.permutations(tags) if list(p) != tags]
            res["perms"] = {p: ind_outputs(m, build_state(m, shared, inds, list(p))) for p in perms[: (1 if n_ind == 2 else 3)]}
            s = build_state(m, shared, inds, tags)
            res["totals"] = {tot: (value_terms(s[tot])[0], value_terms(s[ind])[0]) for tot, ind in TOTALS}
            ps = build_state(m, shared, inds, list(perms[0]))
            res["totals_perm"] = {tot: value_terms(ps[tot])[0] for tot, _ in TOTALS}
            return res

        for c, res in st.explore(run, "R"):
            if isinstance(res, Exception):
                raise res
            shared, inds = hold["shared"], hold["inds"]
            rp = _replay(kind, kw, shared, inds, n_vis)
            T.ctx().congruence = "pruned"
            full, tags = res["full"], res["tags"]

            def rows_equal(label, A, ia, B, ib, what):
                for k in A:
                    a, b = A[k][ia], B[k][ib]
                    a, b = np.asarray(a, dtype=object), np.asarray(b, dtype=object)
                    for idx in np.ndindex(*a.shape):
                        x, y = a[idx], b[idx]
                        if x.eq(y):
                            rec.obligations += 1
                            rec.discharged += 1
                            continue
                        rec.prove(f"{label}:{k}{list(idx)}", x == y, replay=rp, timeout_ms=60000, what=what)

            rows_equal("noninterference[P0]", full, 0, res["replaced"], 0, "individual 0's terms depend on the other individuals' data / latent values")
            for pos, tag in enumerate(tags):
                rows_equal(f"alone[{tag}]", full, pos, res["alone"][tag], 0, "the row computed in a batch differs from the individual evaluated alone")
            for p, outs in res["perms"].items():
                for pos, tag in enumerate(p):
                    rows_equal(f"perm{list(p)}[{tag}]", outs, pos, full, tags.index(tag), "permuting individuals does not permute the per-individual outputs")
            for tot, (tv, iv) in res["totals"].items():
                rec.prove(f"total[{tot}]", tv.reshape(-1)[0] == sum(iv.reshape(-1), T.real_val(0)), replay=rp, timeout_ms=60000, what="population total is not the sum of the per-individual terms")
                rec.prove(f"total-perm[{tot}]", res["totals_perm"][tot].reshape(-1)[0] == tv.reshape(-1)[0], replay=rp, timeout_ms=60000, what="total changes under a permutation of individuals")
            rec.twin("ctx")
            rec.end_path(c)
        rec.sample({"model": cfg_name(kind, kw), "n_ind": n_ind, "checks": ["non-interference", "alone-vs-batch", "permutation", "totals"]})
        return rec.result()

    return guarded(PROP, task, body)


def scipy_plumbing_task(n_ids):
    """personalized parameters are paired with the right individual whatever the order of the ids (optimiser stubbed; see harness/c17.py)"""
    from harness.c17 import plumbing_task

    return plumbing_task(n_ids, prop=PROP)


def sampler_noninterference_task(n_ind=2, shape=(1,)):
    """one step of the real individual sampler in IEEE float32: two executions that agree on individual 0 and differ freely on the
    others (their likelihoods may overflow to inf / NaN) give individual 0 the same transition (harness shared with C03)"""
    from harness.c03 import ind_noninterference_task

    return ind_noninterference_task(n_ind, shape, prop=PROP)


def tasks(tier, seed=0):
    cfgs = [
        ("logistic", dict(features=["a", "b"], source_dimension=1, obs_models="gaussian-diagonal")),
        ("logistic", dict(features=["a", "b"], source_dimension=0, obs_models="gaussian-scalar")),
        ("linear", dict(features=["a", "b"], source_dimension=1, obs_models="gaussian-scalar")),
    ]
    ts = [("independence_task", dict(kind=k, kw=kw)) for k, kw in cfgs] + [("scipy_plumbing_task", dict(n_ids=3)), ("sampler_noninterference_task", dict(n_ind=2, shape=(1,)))]
    if tier == "thorough":
        ts += [("independence_task", dict(kind=k, kw=kw, n_ind=3)) for k, kw in cfgs]
        ts.append(("independence_task", dict(kind="shared_speed_logistic", kw=dict(features=["a", "b"], source_dimension=1))))
        ts.append(("independence_task", dict(kind="linear", kw=dict(features=["a", "b"], source_dimension=0, obs_models="gaussian-diagonal"))))
    return ts
