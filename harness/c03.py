"""C03 — every sampler step is a Metropolis-Hastings transition for the documented target (and, sharing the harness,
C02 layer 3: the state after a sampler call is the accepted/rejected mixture and every later read is fresh).

Real PopulationGibbsSampler / PopulationFastGibbsSampler / PopulationMetropolisHastingsSampler / IndividualGibbsSampler built by
the real sampler_factory run `sample()` on a real State over an abstract model graph (uninterpreted attachment / regularity).
Symbolic: current value, proposal scales (>0), inverse temperature in (0,1], every normal and uniform draw; the visiting order
is enumerated (all permutations); every accept/reject pattern is a path of the explorer.
"""
from __future__ import annotations

import itertools

import numpy as np
import torch
import z3

from harness.samplers_common import *  # noqa
from leaspy.exceptions import LeaspyException
from vcheck.common import Recorder, guarded, tensor_literal, model_value

PROP = "C03"
META = dict(
    explanation="sample() of the four real sampler classes is executed with symbolic value / scales / temperature / draws on a real State whose "
    "attachment and regularity are uninterpreted functions; on every path (every accept/reject pattern, every visiting order) it is proved that "
    "each proposal perturbs exactly the targeted block by std*z with the draw consumed for that block, that the decision taken is "
    "u < exp(-(dR*beta + dA)) with the uniform consumed for that decision (one per decision), that the acceptance history receives the "
    "decisions, that the final value is the accepted/rejected mixture, and that row i of the individual sampler mentions only row i's symbols. In IEEE float32 (where likelihoods can overflow to inf / NaN) the real individual sampler is run on two executions that agree on individual 0 and differ freely on the others, and individual 0's new value, recorded decision and refreshed attachment are proved bit-identical (2-safety non-interference). Mixture branch of the individual sampler: on a cluster graph (uninterpreted per-cluster regularities) the ratio handed to the real _group_metropolis_step equals exp(-(dR*beta + dA)) with R the softmax-responsibility-weighted regularity evaluated on the previous, respectively proposed, state.",
    bounds="population shapes (2,), (3,), (2,1), (2,2) [thorough: (3,2)]; individuals <= 3 with row shape (1,), (2,); one call of sample(); all visiting orders; IEEE float32 2-safety task: 2 (3) individuals, row shape (1,) ((2,)), concrete squared-error attachment / regularity, finite state and draws, likelihoods free to overflow",
    outside="masked samplers (NotImplementedError in this tree, asserted); detailed balance as a probabilistic statement",
    assumptions=["floats as reals; exp abstracted (positive, monotone)", "torch.randn / torch.rand replaced by fresh symbols, random.shuffle by an enumerated permutation"],
)

REPLAY_PRELUDE = '''
import random, itertools, math
import numpy as np
import leaspy.exceptions
import leaspy.samplers.gibbs as G
from leaspy.samplers import sampler_factory
from leaspy.variables.dag import VariablesDAG
from leaspy.variables.specs import DataVariable, LinkedVariable, PopulationLatentVariable, IndividualLatentVariable
from leaspy.variables.state import State, StateForkType
from leaspy.utils.functional import NamedInputFunction
def A_pop(v, o): return ((v.reshape(-1) * torch.arange(1, v.numel() + 1) - o.sum()) ** 2).sum() * 0.7 + torch.sin(v.sum())
def R_pop(v): return (v ** 2).sum() * 1.3 + v.reshape(-1)[0]
def A_ind(v, o): return ((v * torch.arange(1, v.shape[1] + 1) - o) ** 2).sum(dim=1) * 0.7
def R_ind(v): return (v ** 2).sum(dim=1) * 1.3 + v[:, 0]
def pop_dag():
    return VariablesDAG.from_dict({"v": DataVariable(), "o": DataVariable(),
        "nll_attach": LinkedVariable(NamedInputFunction(A_pop, ("v", "o"))), "nll_regul_v": LinkedVariable(NamedInputFunction(R_pop, ("v",)))})
def ind_dag():
    return VariablesDAG.from_dict({"v": DataVariable(), "o": DataVariable(),
        "nll_attach_ind": LinkedVariable(NamedInputFunction(A_ind, ("v", "o"))), "nll_regul_v_ind": LinkedVariable(NamedInputFunction(R_ind, ("v",))),
        "nll_regul_ind_sum_ind": LinkedVariable(NamedInputFunction(lambda nll_regul_v_ind: nll_regul_v_ind, ("nll_regul_v_ind",))),
        "nll_attach": LinkedVariable(NamedInputFunction(lambda nll_attach_ind: nll_attach_ind.sum(), ("nll_attach_ind",)))})
class Draws:
    # draws come from the solver's counterexample (`given`) as long as it has some, then from the generator
    def __init__(self, rng, given=None): self.rng, self.n, self.u, self.order, self.given = rng, [], [], None, (given or {})
    def randn(self, *shape, **kw):
        shape = tuple(shape[0]) if len(shape) == 1 and isinstance(shape[0], (tuple, list, torch.Size)) else tuple(shape)
        g = self.given.get("normals", [])
        z = torch.tensor(g[len(self.n)], dtype=torch.float64).reshape(shape) if len(self.n) < len(g) else torch.tensor(np.array(self.rng.standard_normal(shape)), dtype=torch.float64)
        self.n.append(z); return z
    def rand(self, *shape, **kw):
        shape = tuple(shape[0]) if len(shape) == 1 and isinstance(shape[0], (tuple, list, torch.Size)) else tuple(shape)
        g = self.given.get("uniforms", [])
        u = torch.tensor(g[len(self.u)], dtype=torch.float64).reshape(shape) if len(self.u) < len(g) else torch.tensor(np.array(self.rng.random(shape)), dtype=torch.float64)
        self.u.append(u); return u
    def shuffle(self, lst):
        if self.given.get("order"):
            want = [tuple(i) for i in self.given["order"]]; lst[:] = sorted(lst, key=lambda i: want.index(tuple(i)) if tuple(i) in want else len(want))
        else:
            p = list(self.rng.permutation(len(lst))); lst[:] = [lst[i] for i in p]
        self.order = list(lst)
def G_(given, key, default):
    v = (given or {}).get(key)
    return default if v is None else torch.tensor(v, dtype=torch.float64).reshape(default.shape)
'''


def _given(model, v0, o, tinv, std0, d, order=None):
    """the solver's counterexample as plain numbers (inputs, proposal scales, every draw, the visiting order)"""
    lit = lambda a: [model_value(model, x) for x in np.asarray(a, dtype=object).reshape(-1)]
    g = dict(v0=lit(v0.sym), o=lit(o.sym), tinv=lit(tinv.sym)[0], std=lit(std0), normals=[lit(z.sym) for z in d.normals], uniforms=[lit(u.sym) for u in d.uniforms])
    if order is not None:
        g["order"] = [list(i) for i in order]
    return g


def _pop_replay(kind, shape, given=None):
    return REPLAY_PRELUDE + f'''
KIND, SHAPE = {kind!r}, {tuple(shape)!r}
GIVEN = {given!r}
bad = None
for seed in ([-1] if GIVEN else []) + list(range(40)):
    given = GIVEN if seed < 0 else None
    rng = np.random.default_rng(abs(seed))
    v0 = G_(given, "v0", torch.tensor(rng.standard_normal(SHAPE), dtype=torch.float64)); o = G_(given, "o", torch.tensor(rng.standard_normal((2,)), dtype=torch.float64))
    tinv = float(G_(given, "tinv", torch.tensor(rng.uniform(0.05, 1.0), dtype=torch.float64)))
    S = State(pop_dag(), auto_fork_type=StateForkType.REF)
    with S.auto_fork(None): S["v"] = v0.clone(); S["o"] = o
    smp = sampler_factory(KIND, PopulationLatentVariable, name="v", shape=SHAPE, scale=torch.ones(SHAPE))
    smp.std = G_(given, "std", torch.tensor(rng.uniform(0.2, 1.5, tuple(smp.std.shape)), dtype=torch.float64))
    std = smp.std.clone()
    d = Draws(rng, given); saved = (torch.randn, torch.rand, G.shuffle)
    torch.randn, torch.rand, G.shuffle = d.randn, d.rand, d.shuffle
    try: smp.sample(S, temperature_inv=tinv)
    except leaspy.exceptions.LeaspyException as e: bad = f"seed {{seed}}: sample() raised {{type(e).__name__}}: {{e}}"; break
    finally: torch.randn, torch.rand, G.shuffle = saved
    order = d.order if d.order is not None else list(np.ndindex(*std.shape))
    if len(d.n) != len(order) or len(d.u) != len(order): bad = f"seed {{seed}}: {{len(d.n)}} normal / {{len(d.u)}} uniform draws for {{len(order)}} decisions"; break
    cur = v0.clone(); acc = torch.zeros(tuple(std.shape), dtype=torch.float64)
    for idx, z, u in zip(order, d.n, d.u):
        idx = tuple(idx)
        prop = cur.clone(); prop[idx] = prop[idx] + std[idx] * z
        D = (R_pop(prop) - R_pop(cur)) * tinv + (A_pop(prop, o) - A_pop(cur, o))
        if bool(u < torch.exp(-D)): cur = prop; acc[idx] = 1.0
    if not torch.allclose(S["v"], cur, rtol=1e-9, atol=1e-12): bad = f"seed {{seed}}: final value {{S['v']}} is not the documented accept/reject mixture {{cur}}"; break
    if not torch.equal(smp.acceptation_history[-1].double(), acc): bad = f"seed {{seed}}: acceptance history {{smp.acceptation_history[-1]}} != decisions {{acc}}"; break
    if not torch.allclose(S["nll_attach"], A_pop(S["v"], o)) or not torch.allclose(S["nll_regul_v"], R_pop(S["v"])): bad = f"seed {{seed}}: stale derived value after sampling"; break
print(bad); sys.exit(1 if bad else 0)
'''


def _ind_replay(n_ind, shape, given=None):
    return REPLAY_PRELUDE + f'''
N, SHAPE = {n_ind}, {tuple(shape)!r}
GIVEN = {given!r}
bad = None
for seed in ([-1] if GIVEN else []) + list(range(40)):
    given = GIVEN if seed < 0 else None
    rng = np.random.default_rng(abs(seed))
    v0 = G_(given, "v0", torch.tensor(rng.standard_normal((N,) + SHAPE), dtype=torch.float64)); o = G_(given, "o", torch.tensor(rng.standard_normal((N, 1)), dtype=torch.float64))
    tinv = float(G_(given, "tinv", torch.tensor(rng.uniform(0.05, 1.0), dtype=torch.float64)))
    S = State(ind_dag(), auto_fork_type=StateForkType.REF)
    with S.auto_fork(None): S["v"] = v0.clone(); S["o"] = o
    smp = sampler_factory("gibbs", IndividualLatentVariable, name="v", shape=SHAPE, n_patients=N, scale=1.0)
    smp.std = G_(given, "std", torch.tensor(rng.uniform(0.2, 1.5, (N,)), dtype=torch.float64)); std = smp.std.clone()
    d = Draws(rng, given); saved = (torch.randn, torch.rand)
    torch.randn, torch.rand = d.randn, d.rand
    try: smp.sample(S, temperature_inv=tinv)
    except leaspy.exceptions.LeaspyException as e: bad = f"seed {{seed}}: sample() raised {{type(e).__name__}}: {{e}}"; break
    finally: torch.randn, torch.rand = saved
    if len(d.n) != 1 or len(d.u) != 1 or tuple(d.u[0].shape) != (N,) or tuple(d.n[0].shape) != (N,) + SHAPE: bad = f"seed {{seed}}: draws {{[tuple(x.shape) for x in d.n]}} {{[tuple(x.shape) for x in d.u]}}"; break
    prop = v0 + std.reshape((N,) + (1,) * len(SHAPE)) * d.n[0]
    D = (R_ind(prop) - R_ind(v0)) * tinv + (A_ind(prop, o) - A_ind(v0, o))
    acc = d.u[0] < torch.exp(-D)
    exp = torch.where(acc.reshape((N,) + (1,) * len(SHAPE)), prop, v0)
    if not torch.allclose(S["v"], exp, rtol=1e-9, atol=1e-12): bad = f"seed {{seed}}: final value {{S['v']}} is not the per-individual accept/reject mixture {{exp}}"; break
    if not torch.equal(smp.acceptation_history[-1].double(), acc.double()): bad = f"seed {{seed}}: acceptance history != decisions"; break
    if not torch.allclose(S["nll_attach_ind"], A_ind(S["v"], o)) or not torch.allclose(S["nll_attach"], A_ind(S["v"], o).sum()): bad = f"seed {{seed}}: stale derived value after sampling"; break
print(bad); sys.exit(1 if bad else 0)
'''


def pop_task(kind, shape, prop=PROP):
    task = f"pop[{kind},shape={tuple(shape)}]"

    def body():
        rec = Recorder(prop, task, SAMPLER_FUNCS)
        rec.stubs += ["torch.randn -> fresh symbols", "torch.rand -> fresh symbols in [0,1)", "random.shuffle -> enumerated permutation"]
        hold = {}
        script = _pop_replay(kind, shape)

        def run():
            dag = pop_graph(shape)
            S = State(dag, auto_fork_type=StateForkType.REF)
            v0 = st.sym("v", shape)
            o = st.sym("o", (2,))
            with S.auto_fork(None):
                S["v"] = v0
                S["o"] = o
            tinv = st.sym("tinv", ())
            T.assume(z3.And(tinv.sym[()] > 0, tinv.sym[()] <= 1))
            smp = make_sampler(kind, shape)
            std0 = smp.std.sym.copy()
            d = Draws()
            hold.update(S=S, v0=v0, o=o, tinv=tinv, smp=smp, d=d, std0=std0)
            with d:
                smp.sample(S, temperature_inv=tinv)
            return "done"

        for c, res in st.explore(run, "R"):
            rec.end_path(c)
            if isinstance(res, Exception) and not isinstance(res, LeaspyException):
                raise res
            S, v0, o, tinv, smp, d, std0 = (hold[k] for k in ("S", "v0", "o", "tinv", "smp", "d", "std0"))
            order = d.shuffles[0] if d.shuffles else list(np.ndindex(*std0.shape))
            given = lambda m_, order=order, v0=v0, o=o, tinv=tinv, std0=std0, d=d: _pop_replay(kind, shape, _given(m_, v0, o, tinv, std0, d, order if d.shuffles else None))
            if isinstance(res, Exception):
                # the real sampler / State refused on a feasible path of the step (values from the solver, replayed)
                rec.prove(f"no-exception#{rec.paths}", z3.BoolVal(False), replay=given, key=f"{prop}:exception:{kind}",
                          what=f"sample() raised {type(res).__name__}: {str(res)[:150]}")
                continue
            forks = [x for x in c.decisions]
            ok_counts = len(d.normals) == len(order) and len(d.uniforms) == len(order) and len(forks) == len(order)
            rec.obligations += 1
            if ok_counts:
                rec.discharged += 1
            else:
                rec.violation_from_script("draw-counts", f"{prop}:draw-counts:{kind}", script, f"{len(d.normals)} normal / {len(d.uniforms)} uniform draws, {len(forks)} decisions for {len(order)} blocks")
                continue
            cur = v0.sym.copy()
            ot = list(o.sym.reshape(-1))
            beta = tinv.sym[()]
            for b, idx in enumerate(order):
                idx = tuple(idx)
                z, u = d.normals[b], d.uniforms[b]
                blk_shape = tuple(shape[len(idx):])
                rec.obligations += 1
                if tuple(z.sym.shape) == blk_shape and u.sym.shape == ():
                    rec.discharged += 1
                else:
                    rec.violation_from_script(f"draw-shape[{b}]", f"{prop}:draw-shape:{kind}", script, f"draw shapes {z.sym.shape}/{u.sym.shape} for block {idx}")
                    break
                prop_v = cur.copy()
                if blk_shape == ():
                    prop_v[idx] = cur[idx] + std0[idx] * z.sym[()]
                else:
                    prop_v[idx] = st.vmap(lambda a, zz: a + std0[idx] * zz, cur[idx], z.sym) if idx else st.vmap(lambda a, zz: a + std0[()] * zz, cur, z.sym)
                A0, R0 = expected_pop_terms(list(cur.reshape(-1)), ot)
                A1, R1 = expected_pop_terms(list(prop_v.reshape(-1)), ot)
                E = u.sym[()] < T.t_exp(T.mk_mul(T.real_val(-1), (R1 - R0) * beta + (A1 - A0)))
                cond, outcome, how = forks[b]
                rec.prove(f"decision[{b}]{list(idx)}", E if outcome else z3.Not(E), replay=given, key=f"{prop}:decision:{kind}", timeout_ms=40000,
                          what=f"block {idx}: the decision taken is not `u < exp(-(dR*beta + dA))` for the perturbation std*z of that block only")
                if outcome:
                    cur = prop_v
            final = st.to_terms(S["v"])
            for idx in np.ndindex(*final.shape):
                rec.prove(f"final{list(idx)}", final[idx] == cur[idx], replay=given, key=f"{prop}:final:{kind}", what="state after sampling is not the accepted/rejected mixture of the proposals")
            hist = st.to_terms(smp.acceptation_history[-1])
            accepted = {tuple(idx): forks[b][1] for b, idx in enumerate(order)}
            for idx in np.ndindex(*hist.shape):
                rec.prove(f"history{list(idx)}", hist[idx] == (1 if accepted[tuple(idx)] else 0), replay=given, key=f"{prop}:history:{kind}", what="acceptance history does not receive the decision")
            # later reads are fresh (C02): attachment / regularity re-read equal the functions of the final value
            Af, Rf = expected_pop_terms(list(final.reshape(-1)), ot)
            rec.prove("fresh:nll_attach", st.to_terms(S["nll_attach"])[()] == Af, replay=given, key=f"{prop}:fresh:{kind}", what="stale attachment after sampling")
            rec.prove("fresh:nll_regul", st.to_terms(S["nll_regul_v"])[()] == Rf, replay=given, key=f"{prop}:fresh:{kind}", what="stale regularity after sampling")
            if rec.paths == 1:
                rec.twin("path")
                rec.sample({"sampler": kind, "shape": list(shape), "order": [list(i) for i in order], "decisions": [f[1] for f in forks]})
        return rec.result()

    return guarded(prop, task, body)


def ind_task(n_ind, shape, prop=PROP):
    task = f"ind[gibbs,n={n_ind},shape={tuple(shape)}]"

    def body():
        rec = Recorder(prop, task, SAMPLER_FUNCS)
        rec.stubs += ["torch.randn -> fresh symbols", "torch.rand -> fresh symbols in [0,1)"]
        script = _ind_replay(n_ind, shape)
        st.new_context("R")
        dag = ind_graph(n_ind, shape)
        S = State(dag, auto_fork_type=StateForkType.REF)
        v0 = st.sym("v", (n_ind,) + tuple(shape))
        o = st.sym("o", (n_ind, 1))
        with S.auto_fork(None):
            S["v"] = v0
            S["o"] = o
        tinv = st.sym("tinv", ())
        T.assume(z3.And(tinv.sym[()] > 0, tinv.sym[()] <= 1))
        smp = make_sampler("ind-gibbs", tuple(shape), n_ind=n_ind)
        std0 = smp.std.sym.copy()
        d = Draws()
        with d:
            smp.sample(S, temperature_inv=tinv)
        rec.obligations += 1
        if len(d.normals) == 1 and len(d.uniforms) == 1 and tuple(d.normals[0].sym.shape) == (n_ind,) + tuple(shape) and tuple(d.uniforms[0].sym.shape) == (n_ind,) and not T.ctx().decisions:
            rec.discharged += 1
        else:
            rec.violation_from_script("draw-counts", f"{prop}:draw-counts:ind", script, "individual sampler: wrong number / shape of draws, or a Python-level branch on data")
            return rec.result()
        z, u = d.normals[0].sym, d.uniforms[0].sym
        beta = tinv.sym[()]
        final = st.to_terms(S["v"])
        hist = st.to_terms(smp.acceptation_history[-1])
        T.ctx().congruence = True
        for i in range(n_ind):
            prev = list(v0.sym[i].reshape(-1))
            prop_v = [a + std0[i] * zz for a, zz in zip(prev, z[i].reshape(-1))]
            oi = list(o.sym[i].reshape(-1))
            D = (T.apply_fn("Ri", tuple(prop_v)) - T.apply_fn("Ri", tuple(prev))) * beta + (T.apply_fn("Ai", tuple(prop_v + oi)) - T.apply_fn("Ai", tuple(prev + oi)))
            acc = u[i] < T.t_exp(T.mk_mul(T.real_val(-1), D))
            for k, (a, b) in enumerate(zip(prop_v, prev)):
                rec.prove(f"final[{i}][{k}]", final[i].reshape(-1)[k] == z3.If(acc, a, b), replay=lambda m_: script, key=f"{prop}:final:ind", timeout_ms=40000,
                          what="individual row is not `proposal if u_i < exp(-(dR_i*beta + dA_i)) else previous value`")
            rec.prove(f"history[{i}]", hist[i] == z3.If(acc, T.real_val(1), T.real_val(0)), replay=lambda m_: script, key=f"{prop}:history:ind", what="acceptance history does not receive the per-individual decision")
            # (iii) non-interference: row i mentions only row i's symbols (plus the temperature)
            allowed = set()
            for t_ in (v0.sym[i], z[i], o.sym[i]):
                for x in np.asarray(t_, dtype=object).reshape(-1):
                    allowed |= T.consts_of(x)
            allowed |= T.consts_of(u[i]) | T.consts_of(std0[i]) | T.consts_of(beta)
            used = set()
            for x in final[i].reshape(-1):
                used |= T.consts_of(x)
            used |= T.consts_of(hist[i])
            rec.obligations += 1
            if used <= allowed:
                rec.discharged += 1
            else:
                rec.violation_from_script(f"row-independence[{i}]", f"{prop}:row-independence", script, "the decision / new value of one individual mentions another individual's symbols")
            # fresh reads afterwards
            fin_i = list(final[i].reshape(-1))
            rec.prove(f"fresh:attach[{i}]", st.to_terms(S["nll_attach_ind"])[i] == T.apply_fn("Ai", tuple(fin_i + oi)), replay=lambda m_: script, key=f"{prop}:fresh:ind", timeout_ms=40000, what="stale per-individual attachment after a per-individual rejection")
        tot = st.to_terms(S["nll_attach"]).reshape(-1)[0]
        rec.prove("fresh:attach-total", tot == sum((T.apply_fn("Ai", tuple(list(final[i].reshape(-1)) + list(o.sym[i].reshape(-1)))) for i in range(n_ind)), T.real_val(0)), replay=lambda m_: script,
                  key=f"{prop}:fresh:ind", timeout_ms=40000, what="aggregated attachment read after the decision is stale")
        rec.twin("ctx")
        rec.sample({"sampler": "individual gibbs", "n_ind": n_ind, "row_shape": list(shape), "paths": 1, "decisions": "symbolic per-row"})
        rec.end_path()
        return rec.result()

    return guarded(prop, task, body)


# ------------------------------------------------------------------------------------------------------------------
# "The decision for one individual depends on that individual's own change only" as a 2-safety claim in IEEE float32:
# two executions that agree on individual 0 (value, data, scale, draws) and differ arbitrarily on the others - including
# overflowing / NaN likelihoods there - give individual 0 the same new value and the same recorded decision.
# ------------------------------------------------------------------------------------------------------------------
NONINT_REPLAY = REPLAY_PRELUDE + """
def A32(v, o): return ((v - o) ** 2).sum(dim=1)
def R32(v): return (v ** 2).sum(dim=1)
def dag32():
    return VariablesDAG.from_dict({"v": DataVariable(), "o": DataVariable(),
        "nll_attach_ind": LinkedVariable(NamedInputFunction(A32, ("v", "o"))), "nll_regul_v_ind": LinkedVariable(NamedInputFunction(R32, ("v",))),
        "nll_regul_ind_sum_ind": LinkedVariable(NamedInputFunction(lambda nll_regul_v_ind: nll_regul_v_ind, ("nll_regul_v_ind",))),
        "nll_attach": LinkedVariable(NamedInputFunction(lambda nll_attach_ind: nll_attach_ind.sum(), ("nll_attach_ind",)))})
def one_run(X):
    f32 = lambda a: torch.tensor(a, dtype=torch.float32)
    S = State(dag32(), auto_fork_type=StateForkType.REF)
    with S.auto_fork(None): S["v"] = f32(X["v"]); S["o"] = f32(X["o"])
    n = len(X["v"])
    smp = sampler_factory("gibbs", IndividualLatentVariable, name="v", shape=tuple(f32(X["v"]).shape[1:]), n_patients=n, scale=1.0)
    smp.std = f32(X["std"])
    saved = (torch.randn, torch.rand)
    torch.randn, torch.rand = (lambda *a, **k: f32(X["z"])), (lambda *a, **k: f32(X["u"]))
    try: smp.sample(S, temperature_inv=X["tinv"])
    finally: torch.randn, torch.rand = saved
    return S["v"][0].clone(), smp.acceptation_history[-1][0].clone(), S["nll_attach_ind"][0].clone()
"""


def ind_noninterference_task(n_ind=2, shape=(1,), prop=PROP):
    task = f"ind-noninterference[F32,n={n_ind},shape={tuple(shape)}]"

    def body():
        rec = Recorder(prop, task, [IndividualGibbsSampler.sample, IndividualGibbsSampler._proposed_change, AbstractSampler._group_metropolis_step, State.revert, State.put])
        rec.stubs += ["torch.randn -> fresh float32 symbols", "torch.rand -> fresh float32 symbols in [0,1)"]
        hold = {}
        f32 = torch.float32

        def dag32():
            A = lambda v, o: ((v - o) ** 2).sum(dim=1)
            R = lambda v: (v**2).sum(dim=1)
            return VariablesDAG.from_dict({
                "v": DataVariable(), "o": DataVariable(),
                "nll_attach_ind": LinkedVariable(NamedInputFunction(A, ("v", "o"))), "nll_regul_v_ind": LinkedVariable(NamedInputFunction(R, ("v",))),
                "nll_regul_ind_sum_ind": LinkedVariable(NamedInputFunction(lambda nll_regul_v_ind: nll_regul_v_ind, ("nll_regul_v_ind",))),
                "nll_attach": LinkedVariable(NamedInputFunction(lambda nll_attach_ind: nll_attach_ind.sum(), ("nll_attach_ind",))),
            })

        def shared(name, shp, tag):
            """row 0 shared between the two executions, the other rows private to execution `tag`"""
            a = st.sym(name, shp, f32, register=(tag == "A"))
            if tag == "A":
                return a
            b = st.sym(name + "'", shp, f32, register=True)
            hold.setdefault("Braw", {})[name] = b
            arr = b.sym.copy()
            arr[0] = hold["A"][name].sym[0]
            return st.mk(arr, f32)

        def one(tag, tinv):
            X = {}
            for name, shp in (("v", (n_ind,) + tuple(shape)), ("o", (n_ind,) + tuple(shape)), ("std", (n_ind,)), ("z", (n_ind,) + tuple(shape)), ("u", (n_ind,))):
                X[name] = shared(name, shp, tag)
                if tag == "A":
                    hold.setdefault("A", {})[name] = X[name]
            for x in X["std"].sym.reshape(-1):
                T.assume(z3.And(z3.fpGT(x, z3.FPVal(0.0, x.sort())), z3.Not(z3.fpIsInf(x))))
            for x in X["u"].sym.reshape(-1):
                T.assume(z3.And(z3.fpGEQ(x, z3.FPVal(0.0, x.sort())), z3.fpLT(x, z3.FPVal(1.0, x.sort()))))
            for nm in ("v", "o", "z"):  # the state and the draws themselves are finite numbers (the likelihoods may still overflow)
                for x in X[nm].sym.reshape(-1):
                    T.assume(z3.Not(z3.Or(z3.fpIsNaN(x), z3.fpIsInf(x))))
            S = State(dag32(), auto_fork_type=StateForkType.REF)
            with S.auto_fork(None):
                S["v"] = X["v"]
                S["o"] = X["o"]
            smp = sampler_factory("gibbs", IndividualLatentVariable, name="v", shape=tuple(shape), n_patients=n_ind, scale=1.0)
            smp.std = X["std"]
            saved = (torch.randn, torch.rand)
            torch.randn, torch.rand = (lambda *a, **k: X["z"]), (lambda *a, **k: X["u"])
            try:
                smp.sample(S, temperature_inv=tinv)
            finally:
                torch.randn, torch.rand = saved
            return X, st.to_terms(S["v"])[0].reshape(-1), st.to_terms(smp.acceptation_history[-1]).reshape(-1)[0], st.to_terms(S["nll_attach_ind"]).reshape(-1)[0]

        def run():
            hold.clear()
            tinv = st.sym("tinv", (), f32)
            t_ = tinv.sym[()]
            T.assume(z3.And(z3.fpGT(t_, z3.FPVal(0.0, t_.sort())), z3.fpLEQ(t_, z3.FPVal(1.0, t_.sort()))))
            ra = one("A", tinv)
            rb = one("B", tinv)
            hold.update(XA=ra[0], XB=rb[0], tinv=tinv)
            return ra[1:], rb[1:]

        def rp(model):
            lit = lambda t: [model_value(model, x) for x in t.sym.reshape(-1)]
            def X(d):
                return {k: np.array(lit(v), dtype=float).reshape(tuple(v.sym.shape)).tolist() for k, v in d.items()}
            XA, XB = X(hold["XA"]), X(hold["XB"])
            XA["tinv"] = XB["tinv"] = lit(hold["tinv"])[0]
            return NONINT_REPLAY + f"""
XA = {XA!r}
XB = {XB!r}
nan = float('nan'); inf = float('inf')
a, b = one_run(XA), one_run(XB)
same = lambda x, y: bool(torch.where(torch.isnan(x), torch.isnan(y), x == y).all())
print('individual 0 in execution A:', a); print('individual 0 in execution B (same individual 0, other individuals differ):', b)
sys.exit(0 if all(same(x, y) for x, y in zip(a, b)) else 1)
"""

        def corner_pins():
            """designated corner points used only to look for a counterexample when the full float32 query times out: ordinary numbers for
            individual 0 and for execution B, a huge (finite) value / datum for another individual of execution A (its likelihood overflows)"""
            pins = []
            for big_v, big_o in ((1e30, 0.25), (0.5, -1e30), (3e19, 0.25)):
                pin = [(hold["tinv"], torch.tensor(1.0))]
                for name, t_ in hold["A"].items():
                    base = {"v": 0.5, "o": 0.25, "std": 1.0, "z": -0.25, "u": 0.5}[name]  # individual 0 moves onto its datum: accepted whatever the uniform
                    val = torch.full(tuple(t_.sym.shape), base)
                    if name == "v":
                        val[1:] = big_v
                    if name == "o":
                        val[1:] = big_o
                    pin.append((t_, val))
                for name, t_ in hold["Braw"].items():
                    base = {"v": 0.5, "o": 0.25, "std": 1.0, "z": -0.25, "u": 0.5}[name]  # individual 0 moves onto its datum: accepted whatever the uniform
                    pin.append((t_, torch.full(tuple(t_.sym.shape), base)))
                pins.append(pin)
            return pins

        for c, res in st.explore(run, "F"):
            rec.end_path(c)
            if isinstance(res, Exception):
                raise res
            (va, ha, aa), (vb, hb, ab) = res
            pins = corner_pins()
            if rec.violations:
                T.STOP_EXPLORATION = True  # one reproduced counterexample decides the task
                break
            for k, (x, y) in enumerate(zip(va, vb)):
                rec.prove(f"value[0][{k}]#{rec.paths}", T.same_value(x, y), replay=rp, key=f"{prop}:noninterference", timeout_ms=60000, pins=pins,
                          what="the new value of an individual depends on the other individuals (their likelihoods, draws or values)")
            rec.prove(f"decision[0]#{rec.paths}", T.same_value(ha, hb), replay=rp, key=f"{prop}:noninterference", timeout_ms=60000, pins=pins, what="the recorded decision of an individual depends on the other individuals")
            rec.prove(f"attachment[0]#{rec.paths}", T.same_value(aa, ab), replay=rp, key=f"{prop}:noninterference", timeout_ms=60000, pins=pins, what="the refreshed attachment of an individual depends on the other individuals")
            if rec.paths == 1:
                rec.twin("path", timeout_ms=60000)
        rec.sample({"theory": "IEEE float32", "individuals": n_ind, "row_shape": list(shape), "claim": "2-safety: executions equal on individual 0 give it the same transition"})
        return rec.result()

    return guarded(prop, task, body)



# ------------------------------------------------------------------------------------------------------------------
# mixture models: the regularity of an individual is the responsibility-weighted sum over clusters of its per-cluster regularities,
# the responsibilities being those of the state the term is evaluated on (previous state for the previous term, proposed state for the new one)
# ------------------------------------------------------------------------------------------------------------------
MIX_REPLAY = """
from leaspy.utils.weighted_tensor import WeightedTensor
C = {n_clusters}
def R_mix(v): return torch.stack([(v ** 2).sum(dim=1) * (1.3 + c) + v[:, 0] * (c - 0.5) * 3 for c in range(C)], dim=1)
def mix_dag():
    return VariablesDAG.from_dict({{"v": DataVariable(), "o": DataVariable(),
        "nll_attach_ind": LinkedVariable(NamedInputFunction(A_ind, ("v", "o"))), "nll_regul_v_ind": LinkedVariable(NamedInputFunction(R_mix, ("v",))),
        "nll_regul_ind_sum_ind": LinkedVariable(NamedInputFunction(lambda nll_regul_v_ind: WeightedTensor(nll_regul_v_ind), ("nll_regul_v_ind",))),
        "nll_attach": LinkedVariable(NamedInputFunction(lambda nll_attach_ind: nll_attach_ind.sum(), ("nll_attach_ind",)))}})
def target_R(v):
    r = R_mix(v); p = torch.softmax(torch.clamp(-r, -100.), dim=1)
    return (p * r).sum(dim=1)
N, SHAPE = {n_ind}, {shape!r}
bad = None
for seed in range(25):
    rng = np.random.default_rng(seed)
    v0 = torch.tensor(rng.standard_normal((N,) + SHAPE), dtype=torch.float64); o = torch.tensor(rng.standard_normal((N, 1)), dtype=torch.float64)
    tinv = float(rng.uniform(0.05, 1.0))
    S = State(mix_dag(), auto_fork_type=StateForkType.REF)
    with S.auto_fork(None): S["v"] = v0.clone(); S["o"] = o
    smp = sampler_factory("gibbs", IndividualLatentVariable, name="v", shape=SHAPE, n_patients=N, scale=1.0)
    smp.std = torch.tensor(rng.uniform(0.2, 1.5, (N,)), dtype=torch.float64); std = smp.std.clone()
    seen = []
    real_step = smp._group_metropolis_step
    smp._group_metropolis_step = lambda alpha: (seen.append(alpha.clone()), real_step(alpha))[1]
    d = Draws(rng); saved = (torch.randn, torch.rand)
    torch.randn, torch.rand = d.randn, d.rand
    try: smp.sample(S, temperature_inv=tinv)
    finally: torch.randn, torch.rand = saved
    prop = v0 + std.reshape((N,) + (1,) * len(SHAPE)) * d.n[0]
    D = (target_R(prop) - target_R(v0)) * tinv + (A_ind(prop, o) - A_ind(v0, o))
    if len(seen) != 1 or not torch.allclose(seen[0], torch.exp(-D), rtol=1e-9, atol=1e-12): bad = f"seed {{seed}}: acceptance ratio {{seen}} is not exp(-D) = {{torch.exp(-D)}} for the responsibility-weighted target"; break
print(bad); sys.exit(1 if bad else 0)
"""


def ind_mixture_task(n_ind, shape, n_clusters=2, prop=PROP):
    task = f"ind-mixture[gibbs,n={n_ind},shape={tuple(shape)},clusters={n_clusters}]"

    def body():
        from leaspy.utils.weighted_tensor import WeightedTensor as WT

        rec = Recorder(prop, task, SAMPLER_FUNCS)
        rec.stubs += ["torch.randn -> fresh symbols", "torch.rand -> fresh symbols in [0,1)", "per-cluster regularities and attachment are uninterpreted functions of the individual's own row"]
        script = REPLAY_PRELUDE + MIX_REPLAY.format(n_clusters=n_clusters, n_ind=n_ind, shape=tuple(shape))
        st.new_context("R")

        def rows(x):
            a = st.to_terms(x.value if isinstance(x, WT) else x)
            return [list(a[i].reshape(-1)) for i in range(a.shape[0])]

        def Rc(v):
            rv = rows(v)
            return st.mk(np.array([[T.apply_fn(f"Ri{c}", tuple(rv[i])) for c in range(n_clusters)] for i in range(n_ind)], dtype=object), torch.float32)

        def Oc(o):
            ro = rows(o)
            return st.mk(np.array([[T.apply_fn(f"Roi{c}", tuple(ro[i])) for c in range(n_clusters)] for i in range(n_ind)], dtype=object), torch.float32)

        def Aind(v, o):
            rv, ro = rows(v), rows(o)
            return st.mk(np.array([T.apply_fn("Ai", tuple(rv[i] + ro[i])) for i in range(n_ind)], dtype=object), torch.float32)

        dag = VariablesDAG.from_dict({
            "v": DataVariable(), "o": DataVariable(),
            "nll_attach_ind": LinkedVariable(NamedInputFunction(Aind, ("v", "o"))),
            "nll_regul_v_ind": LinkedVariable(NamedInputFunction(Rc, ("v",))),
            "nll_regul_o_ind": LinkedVariable(NamedInputFunction(Oc, ("o",))),
            "nll_regul_ind_sum_ind": LinkedVariable(NamedInputFunction(lambda nll_regul_v_ind, nll_regul_o_ind: WT(nll_regul_v_ind + nll_regul_o_ind), ("nll_regul_v_ind", "nll_regul_o_ind"))),
            "nll_attach": LinkedVariable(NamedInputFunction(lambda nll_attach_ind: nll_attach_ind.sum(), ("nll_attach_ind",))),
        })
        S = State(dag, auto_fork_type=StateForkType.REF)
        v0 = st.sym("v", (n_ind,) + tuple(shape))
        o = st.sym("o", (n_ind, 1))
        with S.auto_fork(None):
            S["v"] = v0
            S["o"] = o
        tinv = st.sym("tinv", ())
        T.assume(z3.And(tinv.sym[()] > 0, tinv.sym[()] <= 1))
        smp = make_sampler("ind-gibbs", tuple(shape), n_ind=n_ind)
        std0 = smp.std.sym.copy()
        seen = []
        real_step = smp._group_metropolis_step
        smp._group_metropolis_step = lambda alpha: (seen.append(alpha), real_step(alpha))[1]  # observes the ratio handed to the real step
        d = Draws()
        with d:
            smp.sample(S, temperature_inv=tinv)
        rec.obligations += 1
        if len(d.normals) == 1 and len(d.uniforms) == 1 and len(seen) == 1 and tuple(seen[0].shape) == (n_ind,) and not T.ctx().decisions:
            rec.discharged += 1
        else:
            rec.violation_from_script("draw-counts", f"{prop}:draw-counts:ind-mixture", script, "mixture branch: wrong number / shape of draws or ratios, or a Python-level branch on data")
            return rec.result()
        z, u = d.normals[0].sym, d.uniforms[0].sym
        prop_t = st.mk(np.array([[a + std0[i] * zz for a, zz in zip(v0.sym[i].reshape(-1), z[i].reshape(-1))] for i in range(n_ind)], dtype=object).reshape(v0.sym.shape), torch.float32)

        def target_R(v):  # the documented target, written independently with the engine's own operations
            r = Rc(v)
            s_ = r + Oc(o)
            p = torch.softmax(torch.clamp(-s_, -100.0), dim=1)
            return (p * r).sum(dim=1)

        D = (target_R(prop_t) - target_R(v0)) * tinv + (Aind(prop_t, o) - Aind(v0, o))
        alpha_exp = st.to_terms(torch.exp(-1 * D))
        alpha_got = st.to_terms(seen[0])
        final = st.to_terms(S["v"])
        T.ctx().congruence = True
        for i in range(n_ind):
            rec.prove(f"alpha[{i}]", alpha_got[i] == alpha_exp[i], replay=lambda m_: script, key=f"{prop}:alpha:ind-mixture", timeout_ms=60000,
                      what="mixture branch: the acceptance ratio is not exp(-(dR*beta + dA)) with R the responsibility-weighted regularity of the state it is evaluated on")
            acc = u[i] < alpha_exp[i]
            for k, (a, b) in enumerate(zip(st.to_terms(prop_t)[i].reshape(-1), v0.sym[i].reshape(-1))):
                rec.prove(f"final[{i}][{k}]", final[i].reshape(-1)[k] == z3.If(acc, a, b), replay=lambda m_: script, key=f"{prop}:final:ind-mixture", timeout_ms=60000,
                          what="mixture branch: individual row is not `proposal if u_i < exp(-D_i) else previous value`")
        rec.twin("ctx")
        rec.sample({"sampler": "individual gibbs, mixture branch", "n_ind": n_ind, "row_shape": list(shape), "clusters": n_clusters})
        rec.end_path()
        return rec.result()

    return guarded(prop, task, body)


def structure_task(tier="quick", prop=PROP):
    def body():
        rec = Recorder(prop, "structure-real-graphs", [])
        st.new_context("R")
        structure_of_real_graphs(rec, tier)
        # masked population samplers are refused in this tree
        rec.obligations += 1
        try:
            sampler_factory("gibbs", PopulationLatentVariable, name="v", shape=(2,), scale=torch.ones(2), mask=torch.ones(2))
            rec.unreproduced.append("masked population sampler no longer refused: the harness does not cover masks")
        except NotImplementedError:
            rec.discharged += 1
        rec.sample({"check": "children of every latent variable in the real graphs of all model configurations"})
        return rec.result()

    return guarded(prop, "structure-real-graphs", body)


def tasks(tier, seed=0):
    ts = [("structure_task", dict(tier=tier))]
    shapes = {"gibbs": [(2,), (2, 1), (2, 2)], "fastgibbs": [(2,), (2, 2), (3, 1)], "metropolis-hastings": [(2,), (2, 2)]}
    if tier == "thorough":
        shapes = {"gibbs": [(2,), (3,), (2, 1), (2, 2)], "fastgibbs": [(2,), (3,), (2, 2), (3, 2)], "metropolis-hastings": [(2,), (3,), (2, 2), (3, 2)]}
    for k, shs in shapes.items():
        for sh in shs:
            ts.append(("pop_task", dict(kind=k, shape=sh)))
    ts.append(("ind_task", dict(n_ind=2, shape=(1,))))
    ts.append(("ind_task", dict(n_ind=2, shape=(2,))))
    ts.append(("ind_noninterference_task", dict(n_ind=2, shape=(1,))))
    ts.append(("ind_mixture_task", dict(n_ind=2, shape=(1,), n_clusters=2)))
    if tier == "thorough":
        ts.append(("ind_mixture_task", dict(n_ind=2, shape=(2,), n_clusters=2)))
        ts.append(("ind_mixture_task", dict(n_ind=2, shape=(1,), n_clusters=3)))
        ts.append(("ind_noninterference_task", dict(n_ind=2, shape=(2,))))
        ts.append(("ind_noninterference_task", dict(n_ind=3, shape=(1,))))
        ts.append(("ind_task", dict(n_ind=3, shape=(1,))))
        ts.append(("ind_task", dict(n_ind=3, shape=(2,))))
    return ts
