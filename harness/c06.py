"""C06 — missing and padded observations never influence any result.

Two executions of the real pipeline (put-data-shaped inputs -> State -> model / attachment / sufficient statistics /
update_parameters) that agree on every observed entry and on the mask, and carry independent symbols at every masked
position of y and t (R: arbitrary reals; F: arbitrary float32 including NaN and +-inf), are proved to give identical
outputs; adding an all-masked visit to every individual is proved not to change anything; observation counts are proved
to be the number of true mask bits.
"""
from __future__ import annotations

import numpy as np
import torch
import z3

from harness.realmodel import *  # noqa
from leaspy.models.mcmc_saem_compatible import McmcSaemCompatibleModel
from leaspy.models.obs_models import FullGaussianObservationModel
from leaspy.utils.weighted_tensor import sum_dim, wsum_dim
from leaspy.variables.distributions import NormalFamily
from leaspy.variables.specs import ModelParameter
from leaspy.exceptions import LeaspyConvergenceError
from vcheck.common import Recorder, guarded, tensor_literal

PROP = "C06"
META = dict(
    explanation="Non-interference proofs on the real State/DAG: outputs (model at observed entries, nll_attach(_ind), y_L2/n_obs statistics, "
    "y_x_model at observed entries, every parameter after update_parameters in and after burn-in) are proved equal for two executions "
    "that differ only in the values stored under the mask (reals, and IEEE float32 incl. NaN/inf), and for a cohort with one more "
    "all-masked visit; counts are proved equal to the number of true mask bits.",
    bounds="2 individuals x 2 visits (+1 padded) x 2 features, sources 0..1, logistic and linear (shared-speed in thorough); symbolic mask; explicit oracle for `noise estimates use observed entries only` (updated noise^2 * count == sum over observed entries of (y - model)^2) in the real-arithmetic tasks",
    outside="bit-level equality of float reductions under different padding (torch's reduction order is not modelled); personalization outputs",
    assumptions=["R: floats as reals", "F: reductions modelled as a left fold (claims are order-insensitive: same order in both runs)", "transcendental functions abstracted (same abstraction in both runs, congruence)"],
)


def pipeline(m, s, burn_in_modes=(True, False)):
    """named outputs (object arrays of terms, optional weights) of the real pipeline on state s"""
    out = {}
    out["model"] = value_terms(s["model"])
    out["nll_attach_ind"] = value_terms(s["nll_attach_ind"])
    out["nll_attach"] = value_terms(s["nll_attach"])
    scalar = tuple(m.dag["noise_std"].shape) == (1,)
    for k in (("y_L2", "n_obs") if scalar else ("y_L2_per_ft", "n_obs_per_ft")):
        out[k] = value_terms(s[k])
    S = McmcSaemCompatibleModel.compute_sufficient_statistics.__func__(type(m), s)
    out["S:y_x_model"] = value_terms(S["y_x_model"])
    for b in burn_in_modes:
        s2 = s.clone(disable_auto_fork=True)
        try:
            type(m).update_parameters(s2, S, burn_in=b)
            for p in by_type(m.dag, ModelParameter):
                out[f"update[burn_in={b}]:{p}"] = value_terms(s2[p])
        except LeaspyConvergenceError as e:
            out[f"update[burn_in={b}]:raised"] = str(e)[:40]
    return out


def _eq(a, b):
    return T.same_value(a, b) if z3.is_fp(a) else a == b


def _same_bits(a, b):
    """'agree on the observed entries' = identical values (bit-identical floats)"""
    return a == b


def compare(rec, A, B, present_A, rp, map_index=None, tag=""):
    """prove outputs of B equal those of A (entries of `model` / y_x_model only where observed)"""
    raised_A = {k for k in A if k.endswith(":raised")}
    raised_B = {k for k in B if k.endswith(":raised")}
    rec.obligations += 1
    if raised_A == raised_B:
        rec.discharged += 1
    else:
        rec.unreproduced.append(f"{rec.task}: the two executions disagree on raising ({raised_A} vs {raised_B}) on the same path")
    for name, va in A.items():
        if name.endswith(":raised") or name not in B:
            continue
        (av, aw), (bv, bw) = va, B[name]
        idxs = list(np.ndindex(*av.shape))
        for idx in idxs:
            bidx = idx
            if av.shape != bv.shape:
                if name in ("model", "S:y_x_model"):
                    pass  # compare the common leading block (extra padded visit is at the end)
                else:
                    raise st.Unsupported(f"shape mismatch on {name}: {av.shape} vs {bv.shape}")
            if name == "model":
                goal = T.implies_same(present_A[idx[0], idx[1]], av[idx], bv[bidx])
            elif name == "S:y_x_model":
                goal = T.mk_and(z3.BoolVal(True) if aw[idx].eq(bw[bidx]) else aw[idx] == bw[bidx], T.implies_same(aw[idx], av[idx], bv[bidx]))
            else:
                goal = _eq(av[idx], bv[bidx])
            r = rec.prove(f"{tag}{name}{list(idx)}", goal, replay=rp, timeout_ms=60000, what=f"{name} depends on values stored at masked / padded positions")
            if r:
                T.ctx().lemmas.append(goal)  # staged: a proved equality may be used by the obligations downstream


def _replay(kind, kw, ins, insB, pad):
    def rp(model):
        src = replay_prologue(kind, kw, ins, model)
        src += "from leaspy.models.mcmc_saem_compatible import McmcSaemCompatibleModel\nfrom leaspy.variables.specs import ModelParameter\n"
        src += "J = {}\n"
        for k in ("t", "y", "mask"):
            src += f"J[{k!r}] = {tensor_literal(insB[k], model)}\n"
        src += """
# execution B: same observed entries / mask, other values under the mask (made extreme), optional extra masked visit
mA = I['mask'].bool(); nv = mA.shape[1]
mB = J['mask'].bool()
tB, yB = J['t'].clone(), J['y'].clone()
tB[:, :nv] = torch.where(mA.any(-1), I['t'], tB[:, :nv]); yB[:, :nv] = torch.where(mA, I['y'], yB[:, :nv])
mB[:, :nv] = mA
if mB.shape[1] > nv: mB[:, nv:] = False
yB[~mB] = float('nan'); tB[~mB.any(-1)] = float('inf')
sB = State(m.dag, auto_fork_type=StateForkType.REF)
with sB.auto_fork(None):
    for k, v in I.items():
        if k in ('t', 'y', 'mask'): continue
        sB[k] = v
    m._put_data_timepoints(sB, WeightedTensor(tB, mB.any(dim=-1)))
    sB['y'] = WeightedTensor(yB, weight=mB)
def outs(st_):
    o = {}
    mod = st_['model']; o['model'] = torch.where(st_['y'].weight.any(-1, keepdim=True).expand_as(mod), mod, torch.zeros_like(mod))[:, :nv]
    o['nll_attach_ind'] = st_['nll_attach_ind']; o['nll_attach'] = st_['nll_attach']
    S = McmcSaemCompatibleModel.compute_sufficient_statistics.__func__(type(m), st_)
    for b in (True, False):
        s2 = st_.clone(disable_auto_fork=True)
        try:
            type(m).update_parameters(s2, S, burn_in=b)
            for p in m.dag.sorted_variables_by_type[ModelParameter]: o[f'{b}:{p}'] = s2[p]
        except Exception as e:
            o[f'{b}:raised'] = torch.tensor(1.0)
    return o
oa, ob = outs(s), outs(sB)
bad = [k for k in oa if k not in ob or not torch.allclose(oa[k].double(), ob[k].double(), rtol=1e-5, atol=1e-6, equal_nan=False)]
print('outputs that changed with the values under the mask / padding:', bad)
sys.exit(1 if bad else 0)
"""
        return src

    return rp


def _noise_replay(kind, kw, ins, burn_in):
    def rp(model):
        src = replay_prologue(kind, kw, ins, model)
        src += f"""
from leaspy.models.mcmc_saem_compatible import McmcSaemCompatibleModel
S = McmcSaemCompatibleModel.compute_sufficient_statistics.__func__(type(m), s)
res = (s['y'].value - s['model']) ** 2
obs = s['y'].weight.bool()
res = torch.where(obs, res, torch.zeros_like(res))
scalar = tuple(m.dag['noise_std'].shape) == (1,)
ref = (res.sum() / obs.sum()).sqrt().reshape(1) if scalar else (res.sum(dim=(0, 1)) / obs.sum(dim=(0, 1))).sqrt()
try:
    type(m).update_parameters(s, S, burn_in={burn_in!r})
except Exception as e:
    print('refused:', str(e)[:60]); sys.exit(0)
got = s['noise_std'].double().reshape(-1)
print('noise_std after the update:', got, ' RMS residual over observed entries:', ref)
sys.exit(0 if torch.allclose(got, ref.double().reshape(-1), rtol=1e-4, atol=1e-6) else 1)
"""
        return src

    return rp


def fill_task(kind, kw, theory, n_ind=2, n_vis=2, pad=0):
    task = f"{'fill' if not pad else 'padding'}[{cfg_name(kind, kw)},{theory},n={n_ind},v={n_vis}{'+%d' % pad if pad else ''}]"

    def body():
        m = build_model(kind, **kw)
        rec = Recorder(
            PROP, task,
            [WeightedTensor, WeightedTensor.wsum, WeightedTensor.filled, sum_dim, wsum_dim, NormalFamily._nll, type(m).model_with_sources, McmcSaemCompatibleModel._put_data_timepoints,
             FullGaussianObservationModel.scalar_noise_std_update.__func__, FullGaussianObservationModel.diagonal_noise_std_update.__func__, McmcSaemCompatibleModel.update_parameters.__func__],
        )
        hold = {}
        d = m.dimension

        def run():
            sA = fresh_state(m)
            ins = {}
            ins.update(put_symbolic_parameters(sA))
            ins.update(put_symbolic_population(sA))
            ins.update(put_symbolic_individuals(sA, n_ind))
            ins.update(put_symbolic_data(sA, m, n_ind, n_vis))
            mk = ins["mask"].sym
            for k in range(d):
                T.assume(z3.Or(*[mk[i, j, k] for i in range(n_ind) for j in range(n_vis)]))
            if theory == "F":
                # observed entries, parameters and latent values are finite (not NaN / inf); masked ones are arbitrary
                for name, t in ins.items():
                    if name in ("mask",):
                        continue
                    for idx in np.ndindex(*t.sym.shape):
                        x = t.sym[idx]
                        fin = z3.Not(z3.Or(z3.fpIsNaN(x), z3.fpIsInf(x)))
                        if name == "y":
                            T.assume(z3.Implies(mk[idx], fin))
                        elif name == "t":
                            T.assume(z3.Implies(z3.Or(*[mk[idx[0], idx[1], k] for k in range(d)]), fin))
                        else:
                            T.assume(fin)
            # execution B: same everything, independent symbols under the mask; `pad` extra all-masked visits
            sB = fresh_state(m)
            with sB.auto_fork(None):
                for name, t in ins.items():
                    if name not in ("t", "y", "mask"):
                        sB[name] = t
            nvB = n_vis + pad
            fillT = st.sym("fill_t", (n_ind, nvB))
            fillY = st.sym("fill_y", (n_ind, nvB, d))
            mB = np.empty((n_ind, nvB, d), dtype=object)
            tBa = np.empty((n_ind, nvB), dtype=object)
            yBa = np.empty((n_ind, nvB, d), dtype=object)
            for i in range(n_ind):
                for j in range(nvB):
                    # execution B holds the SAME value wherever an entry is observed and an independent symbol elsewhere
                    vis = z3.Or(*[mk[i, j, k] for k in range(d)]) if j < n_vis else z3.BoolVal(False)
                    tBa[i, j] = T.mk_ite(vis, ins["t"].sym[i, j], fillT.sym[i, j]) if j < n_vis else fillT.sym[i, j]
                    for k in range(d):
                        mB[i, j, k] = mk[i, j, k] if j < n_vis else z3.BoolVal(False)
                        yBa[i, j, k] = T.mk_ite(mk[i, j, k], ins["y"].sym[i, j, k], fillY.sym[i, j, k]) if j < n_vis else fillY.sym[i, j, k]
            tB = st.mk(tBa, ins["t"].dtype)
            yB = st.mk(yBa, ins["y"].dtype)
            st.ctx().inputs["tB"] = tB
            st.ctx().inputs["yB"] = yB
            maskB = st.mk(mB, torch.bool)
            insB = put_symbolic_data(sB, m, n_ind, nvB, t=tB, y=yB, mask=maskB)
            hold.update(ins=ins, insB=insB)
            A = pipeline(m, sA)
            B = pipeline(m, sB)
            return A, B

        for c, res in st.explore(run, "R" if theory == "R" else "F"):
            from leaspy.exceptions import LeaspyModelInputError

            if isinstance(res, LeaspyModelInputError):
                # degenerate *parameters* (e.g. a metric that underflows to 0 in float32): refused by the model itself, independent of the data fill
                rec.notes.append(f"path with degenerate parameters refused by the model: {str(res)[:60]}")
                rec.end_path(c)
                continue
            if isinstance(res, Exception):
                raise res
            A, B = res
            ins, insB = hold["ins"], hold["insB"]
            mk = ins["mask"].sym
            present = np.empty((n_ind, n_vis), dtype=object)
            for i in range(n_ind):
                for j in range(n_vis):
                    present[i, j] = z3.Or(*[mk[i, j, k] for k in range(d)])
            T.ctx().congruence = "pruned" if theory == "R" else True
            compare(rec, A, B, present, _replay(kind, kw, ins, insB, pad))
            # counts = number of true mask bits
            scalar = tuple(m.dag["noise_std"].shape) == (1,)
            nobs = A["n_obs" if scalar else "n_obs_per_ft"][0].reshape(-1)
            one, zero = (T.real_val(1), T.real_val(0)) if theory == "R" else (z3.IntVal(1), z3.IntVal(0))
            for k in range(len(nobs)):
                cnt = zero
                for i in range(n_ind):
                    for j in range(n_vis):
                        for kk in range(d):
                            if scalar or kk == k:
                                cnt = cnt + z3.If(mk[i, j, kk], one, zero)
                rec.prove(f"n_obs[{k}]", nobs[k] == cnt, what="observation count is not the number of true mask bits")
            if theory == "R" and not pad:
                # 'noise estimates use observed entries only': updated noise^2 == sum over observed entries of (y - model)^2 / their number
                M, yv = A["model"][0], ins["y"].sym
                zero = T.real_val(0)
                for b in (True, False):
                    nm = f"update[burn_in={b}]:noise_std"
                    if nm not in A:
                        continue
                    got = A[nm][0].reshape(-1)
                    for k in range(len(got)):
                        num, cnt = zero, zero
                        for i, j, kk in np.ndindex(n_ind, n_vis, d):
                            if scalar or kk == k:
                                r_ = yv[i, j, kk] - M[i, j, kk]
                                num = num + z3.If(mk[i, j, kk], r_ * r_, zero)
                                cnt = cnt + z3.If(mk[i, j, kk], T.real_val(1), zero)
                        rec.prove(f"{nm}[{k}]:observed-only", z3.And(got[k] >= 0, got[k] * got[k] * cnt == num), replay=_noise_replay(kind, kw, ins, b), key="C06:noise-observed-only",
                                  timeout_ms=60000, what="the noise estimate is not the root-mean-square residual over the observed entries only")
            rec.twin("ctx", timeout_ms=30000) if theory == "R" else None
            rec.end_path(c)
        rec.sample({"model": cfg_name(kind, kw), "theory": theory, "pad": pad, "mask": "symbolic", "fill": "independent symbols under the mask" + (" incl. NaN/inf" if theory == "F" else "")})
        return rec.result()

    return guarded(PROP, task, body)


def tasks(tier, seed=0):
    cfgs = [
        ("logistic", dict(features=["a", "b"], source_dimension=1, obs_models="gaussian-diagonal")),
        ("logistic", dict(features=["a", "b"], source_dimension=0, obs_models="gaussian-scalar")),
        ("linear", dict(features=["a", "b"], source_dimension=1, obs_models="gaussian-scalar")),
    ]
    ts = []
    for kind, kw in cfgs:
        ts.append(("fill_task", dict(kind=kind, kw=kw, theory="R")))
        ts.append(("fill_task", dict(kind=kind, kw=kw, theory="R", pad=1)))
    ts.append(("fill_task", dict(kind="logistic", kw=cfgs[1][1], theory="F", n_ind=2, n_vis=2)))
    ts.append(("fill_task", dict(kind="linear", kw=cfgs[2][1], theory="F", n_ind=2, n_vis=2)))
    if tier == "thorough":
        more = [
            ("shared_speed_logistic", dict(features=["a", "b"], source_dimension=1, obs_models="gaussian-diagonal")),
            ("linear", dict(features=["a", "b"], source_dimension=0, obs_models="gaussian-diagonal")),
            ("logistic", dict(features=["a", "b", "c"], source_dimension=2, obs_models="gaussian-diagonal")),
        ]
        for kind, kw in more:
            ts.append(("fill_task", dict(kind=kind, kw=kw, theory="R")))
            ts.append(("fill_task", dict(kind=kind, kw=kw, theory="R", pad=1)))
        ts.append(("fill_task", dict(kind="logistic", kw=cfgs[0][1], theory="R", pad=2)))
        ts.append(("fill_task", dict(kind="logistic", kw=cfgs[0][1], theory="F")))
        ts.append(("fill_task", dict(kind="logistic", kw=cfgs[0][1], theory="R", n_ind=2, n_vis=3)))
    return ts


def kernel_task(shape, op):
    """F (float32): the masked reductions of WeightedTensor never see what sits at zero-weight positions (NaN / inf / huge)."""
    task = f"kernel[{op},shape={tuple(shape)}]"

    def body():
        rec = Recorder(PROP, task, [WeightedTensor.wsum, WeightedTensor.sum, WeightedTensor.filled, WeightedTensor.weighted_value.fget, sum_dim, wsum_dim, NormalFamily._nll])
        hold = {}

        def run():
            v = st.sym("v", shape)
            w = st.sym("w", shape, torch.bool)
            fill = st.sym("fill", shape)
            vB = st.mk(st.vmap(T.mk_ite, w.sym, v.sym, fill.sym), torch.float32)
            hold.update(v=v, w=w, fill=fill)
            outs = []
            for val in (v, vB):
                x = WeightedTensor(val, w)
                if op == "wsum":
                    outs.append(list(x.wsum()))
                elif op == "sum_dim0":
                    outs.append([sum_dim(x, but_dim=0)])
                elif op == "wsum_dim_last":
                    outs.append(list(wsum_dim(x, but_dim=-1)))
                elif op == "weighted_value":
                    outs.append([x.weighted_value])
                elif op == "nll_sum":
                    loc = st.sym("loc", shape, register=(val is v))
                    sc = st.sym("scale", (), register=(val is v))
                    outs.append([sum_dim(NormalFamily._nll(x, loc, sc), but_dim=0)])
                elif op == "sqr_wsum":
                    outs.append(list((x**2).wsum()))
                elif op in ("rmse", "rmse_per_ft"):
                    mdl = st.sym("mdl", shape, register=(val is v))
                    outs.append([getattr(FullGaussianObservationModel, "compute_" + op)(y=x, model=mdl)])
            return outs

        for c, res in st.explore(run, "F"):
            rec.end_path(c)
            if isinstance(res, Exception):
                raise res
            v, w, fill = hold["v"], hold["w"], hold["fill"]
            A, B = res

            def rp(model):
                return f"""
from leaspy.utils.weighted_tensor import WeightedTensor, sum_dim, wsum_dim
from leaspy.variables.distributions import NormalFamily
v = {tensor_literal(v, model)}; w = {tensor_literal(w, model)}; fill = {tensor_literal(fill, model)}
def run(val):
    x = WeightedTensor(val, w); op = {op!r}
    if op == 'wsum': return list(x.wsum())
    if op == 'sum_dim0': return [sum_dim(x, but_dim=0)]
    if op == 'wsum_dim_last': return list(wsum_dim(x, but_dim=-1))
    if op == 'weighted_value': return [x.weighted_value]
    if op == 'nll_sum': return [sum_dim(NormalFamily._nll(x, torch.zeros_like(val), torch.tensor(1.0)), but_dim=0)]
    if op.startswith('rmse'):
        from leaspy.models.obs_models import FullGaussianObservationModel
        return [getattr(FullGaussianObservationModel, 'compute_' + op)(y=x, model=torch.zeros_like(val))]
    return list((x ** 2).wsum())
clean = torch.where(w, v, torch.zeros_like(v))
bad = []
for f in (fill, torch.full_like(v, float('inf')), torch.full_like(v, float('nan')), torch.full_like(v, 1e30)):
    a, b = run(clean), run(torch.where(w, v, f))
    for x, y in zip(a, b):
        same = torch.where(torch.isnan(x.float()), torch.isnan(y.float()), x == y)
        if not bool(same.all()): bad.append((f.reshape(-1)[0].item(), x, y))
print(bad); sys.exit(1 if bad else 0)
"""

            for k, (a, b) in enumerate(zip(A, B)):
                ta, tb = st.to_terms(a), st.to_terms(b)
                for idx in np.ndindex(*ta.shape):
                    rec.prove(f"out{k}{list(idx)}", T.same_value(ta[idx], tb[idx]), replay=rp, key=f"C06:kernel:{op}", timeout_ms=60000,
                              what="a masked reduction depends on the value stored at a zero-weight position")
            if rec.paths == 1:
                rec.sample({"op": op, "shape": list(shape), "fill": "arbitrary float32 incl. NaN/inf under the mask"})
        return rec.result()

    return guarded(PROP, task, body)


_old_tasks = tasks


def tasks(tier, seed=0):
    ts = _old_tasks(tier, seed)
    for op in ("wsum", "sum_dim0", "wsum_dim_last", "weighted_value", "nll_sum", "sqr_wsum", "rmse", "rmse_per_ft"):
        ts.append(("kernel_task", dict(shape=(2, 2), op=op)))
        if tier == "thorough":
            ts.append(("kernel_task", dict(shape=(2, 2, 2), op=op)))
    return ts
