"""Shared harness for the sampler-level obligations of C02 and C03.

The real samplers (constructed through the real sampler_factory) run against a real State over a small abstract model graph

    v  (the sampled latent variable)      o (another independent variable)
    nll_regul_v(_ind) = R(v)              nll_attach(_ind) = A(v, o)          nll_regul_ind_sum_ind = R + Ro

whose definitions are uninterpreted functions (per row for the individual variables), so that the documented acceptance
rule can be written with the same functions.  torch.randn / torch.rand are replaced by fresh symbols (recorded in order),
random.shuffle by an arbitrary permutation (enumerated)."""
from __future__ import annotations

import itertools

import numpy as np
import torch
import z3

from harness.realmodel import *  # noqa
import leaspy.samplers.gibbs as gibbs_mod
from leaspy.samplers import sampler_factory
from leaspy.samplers.base import AbstractSampler
from leaspy.samplers.gibbs import (
    AbstractPopulationGibbsSampler,
    GibbsSamplerMixin,
    IndividualGibbsSampler,
    PopulationFastGibbsSampler,
    PopulationGibbsSampler,
    PopulationMetropolisHastingsSampler,
)
from leaspy.utils.functional import NamedInputFunction
from leaspy.variables.dag import VariablesDAG
from leaspy.variables.specs import DataVariable, IndividualLatentVariable, LinkedVariable, PopulationLatentVariable
from leaspy.variables.state import State, StateForkType

SAMPLER_FUNCS = [
    AbstractPopulationGibbsSampler.sample, AbstractPopulationGibbsSampler._proposed_change_idx, AbstractPopulationGibbsSampler._get_shuffled_iterator_indices,
    AbstractPopulationGibbsSampler._get_iterator_indices, IndividualGibbsSampler.sample, IndividualGibbsSampler._proposed_change, AbstractSampler._metropolis_step,
    AbstractSampler._group_metropolis_step, AbstractSampler._update_acceptation_rate, GibbsSamplerMixin.__init__, sampler_factory, State.put, State.revert,
]


def _flat(x):
    return list(st.to_terms(x.value if isinstance(x, WeightedTensor) else x).reshape(-1))


def pop_graph(shape):
    """population variable v of the given shape"""

    def A(v, o):
        return st.mk(np.array(T.apply_fn("A", tuple(_flat(v) + _flat(o))), dtype=object), torch.float32)

    def R(v):
        return st.mk(np.array(T.apply_fn("R", tuple(_flat(v))), dtype=object), torch.float32)

    def M(v, o):
        return st.mk(np.array([T.apply_fn(f"M{k}", tuple(_flat(v) + _flat(o))) for k in range(2)], dtype=object), torch.float32)

    specs = {
        "v": DataVariable(),
        "o": DataVariable(),
        "model": LinkedVariable(NamedInputFunction(M, ("v", "o"))),
        "nll_attach": LinkedVariable(NamedInputFunction(lambda model: st.mk(np.array(T.apply_fn("A", tuple(_flat(model))), dtype=object), torch.float32), ("model",))),
        "nll_regul_v": LinkedVariable(NamedInputFunction(R, ("v",))),
        "other_child": LinkedVariable(NamedInputFunction(lambda o: st.mk(np.array([T.apply_fn("C", tuple(_flat(o)))], dtype=object), torch.float32), ("o",))),
    }
    return VariablesDAG.from_dict(specs)


def expected_pop_terms(v_terms, o_terms):
    """(attachment, regularity) of the documented target for a population value"""
    mod = [T.apply_fn(f"M{k}", tuple(v_terms + o_terms)) for k in range(2)]
    return T.apply_fn("A", tuple(mod)), T.apply_fn("R", tuple(v_terms))


def ind_graph(n_ind, shape):
    """individual variable v of shape (n_ind, *shape); rowwise definitions"""

    def rows(x):
        a = st.to_terms(x.value if isinstance(x, WeightedTensor) else x)
        return [list(a[i].reshape(-1)) for i in range(a.shape[0])]

    def Aind(v, o):
        rv, ro = rows(v), rows(o)
        return st.mk(np.array([T.apply_fn("Ai", tuple(rv[i] + ro[i])) for i in range(n_ind)], dtype=object), torch.float32)

    def Rind(v):
        rv = rows(v)
        return st.mk(np.array([T.apply_fn("Ri", tuple(rv[i])) for i in range(n_ind)], dtype=object), torch.float32)

    def Ro(o):
        ro = rows(o)
        return st.mk(np.array([T.apply_fn("Roi", tuple(ro[i])) for i in range(n_ind)], dtype=object), torch.float32)

    specs = {
        "v": DataVariable(),
        "o": DataVariable(),
        "nll_attach_ind": LinkedVariable(NamedInputFunction(Aind, ("v", "o"))),
        "nll_regul_v_ind": LinkedVariable(NamedInputFunction(Rind, ("v",))),
        "nll_regul_o_ind": LinkedVariable(NamedInputFunction(Ro, ("o",))),
        "nll_regul_ind_sum_ind": LinkedVariable(NamedInputFunction(lambda nll_regul_v_ind, nll_regul_o_ind: nll_regul_v_ind + nll_regul_o_ind, ("nll_regul_v_ind", "nll_regul_o_ind"))),
        "nll_attach": LinkedVariable(NamedInputFunction(lambda nll_attach_ind: nll_attach_ind.sum(), ("nll_attach_ind",))),
        "nll_regul_v": LinkedVariable(NamedInputFunction(lambda nll_regul_v_ind: nll_regul_v_ind.sum(), ("nll_regul_v_ind",))),
    }
    return VariablesDAG.from_dict(specs)


class Draws:
    """replacement of torch.randn / torch.rand / random.shuffle during a sampler call"""

    def __init__(self, perm_choice=True):
        self.normals = []
        self.uniforms = []
        self.shuffles = []
        self.perm_choice = perm_choice

    def randn(self, *shape, **kw):
        if len(shape) == 1 and isinstance(shape[0], (tuple, list, torch.Size)):
            shape = tuple(shape[0])
        z = st.sym(f"z{len(self.normals)}", tuple(shape), register=True)
        self.normals.append(z)
        return z

    def rand(self, *shape, **kw):
        if len(shape) == 1 and isinstance(shape[0], (tuple, list, torch.Size)):
            shape = tuple(shape[0])
        u = st.sym(f"u{len(self.uniforms)}", tuple(shape), register=True)
        for x in u.sym.reshape(-1):
            T.assume(z3.And(x >= 0, x < 1))
        self.uniforms.append(u)
        return u

    def shuffle(self, lst):
        # arbitrary permutation: selection without replacement driven by enumerated choices
        items = list(lst)
        out = []
        while items:
            k = T.choose(len(items)) if self.perm_choice else 0
            out.append(items.pop(k))
        lst[:] = out
        self.shuffles.append(list(out))

    def __enter__(self):
        self._saved = (torch.randn, torch.rand, gibbs_mod.shuffle)
        torch.randn, torch.rand, gibbs_mod.shuffle = self.randn, self.rand, self.shuffle
        return self

    def __exit__(self, *a):
        torch.randn, torch.rand, gibbs_mod.shuffle = self._saved


def make_sampler(kind, shape, n_ind=None, std=None, history_len=25):
    """real sampler via the real factory; its std is then replaced by symbolic positive values of the same shape"""
    if kind == "ind-gibbs":
        s = sampler_factory("gibbs", IndividualLatentVariable, name="v", shape=shape, n_patients=n_ind, scale=1.0, acceptation_history_length=history_len)
    else:
        s = sampler_factory(kind, PopulationLatentVariable, name="v", shape=shape, scale=torch.ones(shape), acceptation_history_length=history_len)
    std_shape = tuple(s.std.shape)
    sym_std = st.sym("std", std_shape)
    for x in sym_std.sym.reshape(-1):
        T.assume(x > 0)
    s.std = sym_std
    return s


def structure_of_real_graphs(rec, tier):
    """On the real model graphs: everything that depends on a latent variable v and enters the acceptance ratio is read by
    the samplers: nll_regul terms among the children of v are exactly {nll_regul_v(_ind), nll_regul_ind_sum(_ind)} and the
    attachment is among the children iff `model` is."""
    cfgs = model_configs(tier)
    for kind, kw in cfgs:
        m = build_model(kind, **kw)
        dag = m.dag
        for v in list(by_type(dag, PopulationLatentVariable)) + list(by_type(dag, IndividualLatentVariable)):
            ch = set(dag.sorted_children[v])
            reg = {c for c in ch if c.startswith("nll_regul")}
            is_ind = v in by_type(dag, IndividualLatentVariable)
            exp = {f"nll_regul_{v}"} | ({f"nll_regul_{v}_ind", "nll_regul_ind_sum_ind", "nll_regul_ind_sum"} if is_ind else set())
            rec.obligations += 1
            ok = reg == exp and (("nll_attach" in ch) == ("model" in ch)) and (not is_ind or ("nll_attach_ind" in ch) == ("model" in ch))
            if ok:
                rec.discharged += 1
            else:
                rec.unreproduced.append(f"structure[{cfg_name(kind, kw)}:{v}]: regularity children {sorted(reg)} != {sorted(exp)} or attachment/model mismatch")
