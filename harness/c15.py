"""C15 — dependency-graph construction is exact.

Every branch of VariablesDAG construction depends on the input graph, so deciding this property for "all graphs up to a size" IS
exhaustive enumeration: all 2^(n(n-1)) digraphs on n named nodes (n <= 4 quick, n = 5 thorough), plus self-reference / unknown-reference
/ isolated-node variants, go through the real VariablesDAG.from_dict (real LinkedVariable / DataVariable specs) and are compared with an
independent specification (Warshall closure).  No non-trivial solver query arises (the inputs are all Booleans and the code branches
on each of them): this is the weakest use of the technique in the set and is labelled so.
The graphs of every shipped model kind are checked against the same specification.
"""
from __future__ import annotations

import itertools

import torch

from harness.realmodel import *  # noqa
from leaspy.exceptions import LeaspyInputError
from leaspy.utils.functional import NamedInputFunction
from leaspy.variables.dag import VariablesDAG
from leaspy.variables.specs import DataVariable, LinkedVariable, NamedVariables
from vcheck.common import Recorder, guarded

PROP = "C15"
META = dict(
    explanation="Exhaustive enumeration of all digraphs on n named nodes through the real VariablesDAG.from_dict, compared with an independent Warshall-closure "
    "specification: success iff acyclic without isolated / self / unknown references; order topological; sorted_children / sorted_ancestors exactly the "
    "descendants / ancestors in the global order; same order for permuted input dictionaries. Plus the graphs of the shipped model kinds.",
    bounds="n <= 4 nodes exhaustively (4096 + 64 + 4 + 1 graphs, each with variants) in quick; n = 5 (1 048 576 graphs) in thorough",
    outside="graphs with more than 5 nodes other than the shipped models'",
    assumptions=["no symbolic reasoning is involved: the code branches on every input bit, so the exploration is an exhaustive enumeration"],
)
NAMES = "abcde"


def _specs(n, edges, order=None, extra_parent=None, const_roots=False):
    """edges: set of (i, j) meaning j depends on i. const_roots: definitions without dependencies are constant *linked*
    variables (a function of nothing) instead of independent variables - both kinds occur in definitions"""
    specs = {}
    idx = list(range(n)) if order is None else order
    for j in idx:
        parents = [NAMES[i] for i in range(n) if (i, j) in edges]
        if extra_parent and extra_parent[0] == j:
            parents.append(extra_parent[1])
        if parents:
            if order is not None:
                parents = list(reversed(parents))
            specs[NAMES[j]] = LinkedVariable(NamedInputFunction(f=lambda *a: None, parameters=tuple(parents)))
        elif const_roots:
            specs[NAMES[j]] = LinkedVariable(NamedInputFunction(f=lambda: None, parameters=()))
        else:
            specs[NAMES[j]] = DataVariable()
    return specs


def _closure(n, edges):
    reach = [[(i, j) in edges for j in range(n)] for i in range(n)]
    for k in range(n):
        for i in range(n):
            if reach[i][k]:
                for j in range(n):
                    if reach[k][j]:
                        reach[i][j] = True
    return reach


def check_graph(n, edges, extra_parent=None, const_roots=False):
    """returns None if the real construction agrees with the specification, else a description"""
    reach = _closure(n, edges)
    cyclic = any(reach[i][i] for i in range(n))
    isolated = any(not any((i, j) in edges for j in range(n)) and not any((j, i) in edges for j in range(n)) for i in range(n))
    bad_ref = extra_parent is not None
    try:
        dag = VariablesDAG.from_dict(_specs(n, edges, extra_parent=extra_parent, const_roots=const_roots))
    except (LeaspyInputError, ValueError) as e:
        if cyclic or isolated or bad_ref:
            return None
        return f"valid graph refused: {type(e).__name__}: {str(e)[:60]}"
    if cyclic or isolated or bad_ref:
        return f"invalid graph accepted (cyclic={cyclic}, isolated={isolated}, bad_ref={bad_ref})"
    order = list(dag.sorted_variables_names)
    if sorted(order) != sorted(NAMES[:n]):
        return f"order is not a permutation of the nodes: {order}"
    pos = {v: k for k, v in enumerate(order)}
    for (i, j) in edges:
        if pos[NAMES[i]] >= pos[NAMES[j]]:
            return f"{NAMES[j]} listed before its dependency {NAMES[i]}"
    for i in range(n):
        v = NAMES[i]
        desc = [NAMES[j] for j in range(n) if reach[i][j]]
        anc = [NAMES[j] for j in range(n) if reach[j][i]]
        if list(dag.sorted_children[v]) != sorted(desc, key=pos.get):
            return f"sorted_children[{v}] = {dag.sorted_children[v]} expected {sorted(desc, key=pos.get)}"
        if list(dag.sorted_ancestors[v]) != sorted(anc, key=pos.get):
            return f"sorted_ancestors[{v}] = {dag.sorted_ancestors[v]} expected {sorted(anc, key=pos.get)}"
    # determinism: another insertion order of the same definitions gives the same order
    dag2 = VariablesDAG.from_dict(_specs(n, edges, order=list(reversed(range(n))), const_roots=const_roots))
    if list(dag2.sorted_variables_names) != order:
        return f"order depends on the insertion order of the definitions: {order} vs {list(dag2.sorted_variables_names)}"
    return None


def _replay(n, edges, extra_parent, const_roots=False):
    return f"""
sys.path.insert(0, '/verif')
from harness.c15 import check_graph
r = check_graph({n}, {set(edges)!r}, {extra_parent!r}, {const_roots!r})
print('graph on {n} nodes, edges (i -> j means j depends on i):', {sorted(edges)!r}, 'extra parent:', {extra_parent!r}, 'definitions without dependencies are constant linked variables:', {const_roots!r}); print(r)
sys.exit(1 if r else 0)
"""


def enum_task(n, part, parts):
    task = f"all-digraphs[n={n},part={part}/{parts}]"

    def body():
        rec = Recorder(PROP, task, [VariablesDAG.from_dict.__func__, VariablesDAG.__post_init__, VariablesDAG.compute_topological_order_and_path_matrix, VariablesDAG.compute_sorted_children_and_ancestors,
                                    VariablesDAG._raise_if_bad_nodes_in_edges, VariablesDAG._raise_if_left_alone_nodes])
        pairs = [(i, j) for i in range(n) for j in range(n) if i != j]
        total = 1 << len(pairs)
        for mask in range(part, total, parts):
            edges = {p for k, p in enumerate(pairs) if mask >> k & 1}
            variants = [(None, False), (None, True)]
            if mask % 97 == part % 97 or n <= 3:
                variants += [((0, NAMES[0]), False), ((n - 1, "zz"), False)]  # self reference, unknown variable
            for extra, const_roots in variants:
                rec.obligations += 1
                rec.paths += 1
                err = check_graph(n, edges, extra, const_roots)
                if err is None:
                    rec.discharged += 1
                    if rec.paths in (5, 500):
                        rec.sample({"n": n, "edges": sorted(edges), "extra_parent": extra, "verdict": "agrees with the closure specification"})
                elif len(rec.violations) < 3:
                    rec.violation_from_script(f"graph#{mask}{'c' if const_roots else ''}", "C15:" + err.split(":")[0][:40], _replay(n, edges, extra, const_roots), what=err)
            if len(rec.violations) >= 3:
                break
        return rec.result()

    return guarded(PROP, task, body)


def model_graphs_task(tier):
    task = "model-graphs"

    def body():
        rec = Recorder(PROP, task, [NamedVariables.__setitem__, NamedVariables._auto_vars.fget, VariablesDAG.__post_init__])
        cfgs = model_configs("thorough") + [("shared_speed_logistic", dict(features=["a", "b"], source_dimension=1)), ("joint", dict(features=["a"], source_dimension=0, nb_events=1)),
                                            ("joint", dict(features=["a", "b"], source_dimension=1, nb_events=1))]
        for kind, kw in cfgs:
            m = build_model(kind, **kw)
            dag = m.dag
            names = list(dag.variables)
            ix = {v: k for k, v in enumerate(names)}
            n = len(names)
            edges = {(ix[p], ix[v]) for v in names for p in dag.direct_ancestors[v]}
            reach = _closure(n, edges)
            order = list(dag.sorted_variables_names)
            pos = {v: k for k, v in enumerate(order)}
            rec.obligations += 1
            errs = []
            for (i, j) in edges:
                if pos[names[i]] >= pos[names[j]]:
                    errs.append(f"{names[j]} before {names[i]}")
            for i, v in enumerate(names):
                if list(dag.sorted_children[v]) != sorted([names[j] for j in range(n) if reach[i][j]], key=pos.get):
                    errs.append(f"children[{v}]")
                if list(dag.sorted_ancestors[v]) != sorted([names[j] for j in range(n) if reach[j][i]], key=pos.get):
                    errs.append(f"ancestors[{v}]")
            # implicit nodes
            from leaspy.variables.specs import IndividualLatentVariable as ILV, PopulationLatentVariable as PLV

            for v in by_type(dag, PLV):
                if f"nll_regul_{v}" not in dag or set(dag.direct_ancestors[f"nll_regul_{v}"]) != {v, f"{v}_mean", f"{v}_std"}:
                    errs.append(f"nll_regul_{v} parents {sorted(dag.direct_ancestors.get(f'nll_regul_{v}', []))}")
            ind = list(by_type(dag, ILV))
            if set(dag.direct_ancestors["nll_regul_ind_sum_ind"]) != {f"nll_regul_{v}_ind" for v in ind}:
                errs.append("nll_regul_ind_sum_ind parents")
            if set(dag.direct_ancestors["nll_regul_ind_sum"]) != {"nll_regul_ind_sum_ind"}:
                errs.append("nll_regul_ind_sum parents")
            for v in ind:
                if f"{v}_sqr" in dag and set(dag.direct_ancestors[f"{v}_sqr"]) != {v}:
                    errs.append(f"{v}_sqr parents")
            if not errs:
                rec.discharged += 1
            else:
                rec.unreproduced.append(f"{task}[{cfg_name(kind, kw)}]: {errs[:4]}")
            rec.sample({"model": cfg_name(kind, kw), "nodes": n, "edges": len(edges)})
        return rec.result()

    return guarded(PROP, task, body)


def tasks(tier, seed=0):
    ts = [("model_graphs_task", dict(tier=tier)), ("enum_task", dict(n=2, part=0, parts=1)), ("enum_task", dict(n=3, part=0, parts=1))]
    for p in range(8):
        ts.append(("enum_task", dict(n=4, part=p, parts=8)))
    if tier == "thorough":
        for p in range(64):
            ts.append(("enum_task", dict(n=5, part=p, parts=64)))
    return ts
