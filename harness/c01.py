"""C01 — values read from the lazily cached variable graph are never stale.

Real code executed: VariablesDAG (real topological orders / children / ancestors) and every State operation (__getitem__,
__setitem__, put with indices / accumulate, revert(), revert(subset), clone (all flags), auto-fork switches, precompute_all,
clear, put_population_latent_variables / put_individual_latent_variables on model graphs).  Node definitions are replaced
by uninterpreted functions of their declared parents (the property is about the cache protocol, whatever the definitions
compute); values are symbolic; the history itself is enumerated exhaustively up to a depth from a family of reachable
start states.  Oracle: after every operation the independent values are read back from the state, every derived read must
be *provably equal* to the from-scratch evaluation over them, and must raise LeaspyInputError iff a needed independent
value is unset.
"""
from __future__ import annotations

import itertools

import numpy as np
import torch
import z3

from harness.realmodel import *  # noqa
from leaspy.exceptions import LeaspyInputError
from leaspy.utils.functional import NamedInputFunction
from leaspy.variables.dag import VariablesDAG
from leaspy.variables.specs import DataVariable, Hyperparameter, IndepVariable, LinkedVariable, LatentVariable
from leaspy.variables.state import State, StateForkType
from vcheck.common import Recorder, guarded

PROP = "C01"
META = dict(
    explanation="All histories (up to the stated depth, from four reachable start states) of set / unset / put(indices, accumulate) / read / "
    "revert / partial revert / clone / fork-mode switches / precompute_all / clear on the real State over toy graphs and over the real "
    "graphs of every shipped model kind are executed with symbolic values; after each operation every derived value read is proved equal "
    "to the from-scratch evaluation on the independent values currently held by the state, and unset inputs must raise LeaspyInputError.",
    bounds="toy graphs <= 6 nodes: depth 3 full alphabet + depth 4 reduced alphabet (quick), depth 4 full / 5 reduced (thorough); model graphs: depth 2 (quick) / 3 (thorough) "
    "with the operations the samplers and algorithms use; 2 individuals",
    outside="histories longer than the bound; to_device; tracked-variable CSV saving; graphs other than the toy family and the shipped models",
    assumptions=["node definitions are functions of their declared parents (enforced by LinkedVariable.compute passing only those); per-row definitions for nodes carrying the individual axis",
                 "partial revert only under its documented precondition (individual-level assignment; only individual-axis nodes read since)"],
)
N_IND = 2


# ------------------------------------------------------------------------------------------------------------------
# graphs
# ------------------------------------------------------------------------------------------------------------------
def _uf_node(name, parents, ind_nodes):
    """rowwise uninterpreted definition of node `name` over its parents"""

    def impl(*vals):
        vals = [st.to_terms(v.value if isinstance(v, WeightedTensor) else v).reshape(-1) for v in vals]
        n = N_IND if any(len(v) == N_IND and p in ind_nodes for v, p in zip(vals, parents)) else 1
        out = np.empty((n,), dtype=object)
        for i in range(n):
            args = [v[i] if (p in ind_nodes) else v[0] for v, p in zip(vals, parents)]
            out[i] = T.apply_fn("F_" + name, tuple(args))
        return st.mk(out, torch.float32)

    impl.__name__ = "F_" + name
    return NamedInputFunction(f=impl, parameters=tuple(parents))


TOY = {
    # name: (pop roots, ind roots, hyper nodes, {derived: parents})
    "chain": (["a"], [], [], {"b": ["a"], "c": ["b"]}),
    "fork": ([], ["a"], [], {"b": ["a"], "c": ["a"]}),
    "diamond": (["a"], [], [], {"b": ["a"], "c": ["a"], "d": ["b", "c"]}),
    "diamond_late_root": (["a"], ["r"], [], {"b": ["a"], "c": ["a"], "d": ["b", "c", "r"]}),
    "two_roots_grandchild": (["x"], ["y"], [], {"u": ["x"], "v": ["y"], "z": ["u", "v"], "tot": ["z", "x"]}),
    "hyper_fed": ([], ["x"], ["h"], {"u": ["x", "h"], "w": ["u"]}),
}


def build_toy(gname):
    pops, inds, hypers, derived = TOY[gname]
    ind_nodes = set(inds)
    changed = True
    while changed:
        changed = False
        for n, ps in derived.items():
            if n not in ind_nodes and any(p in ind_nodes for p in ps):
                ind_nodes.add(n)
                changed = True
    specs = {}
    for r in pops + inds:
        specs[r] = DataVariable()
    for h in hypers:
        specs[h] = Hyperparameter(torch.tensor([0.5]))
    for n, ps in derived.items():
        specs[n] = LinkedVariable(_uf_node(n, ps, ind_nodes))
    dag = VariablesDAG.from_dict(specs)
    return dag, ind_nodes


def build_model_graph(kind, kw):
    """real specs of a shipped model; every LinkedVariable.f replaced by a rowwise UF of its real parents; which nodes carry the
    individual axis is measured on a concrete 3-individual evaluation of the real model"""
    m = build_model(kind, **kw)
    real_dag = m.dag
    # concrete evaluation to measure the individual axis
    s = State(real_dag, auto_fork_type=None)
    g = torch.Generator().manual_seed(0)
    from leaspy.variables.specs import ModelParameter as MP, PopulationLatentVariable as PLV, IndividualLatentVariable as ILV

    for name, var in by_type(real_dag, MP).items():
        s[name] = torch.rand(tuple(var.shape), generator=g) * 0.5 + 0.5
    s.put_population_latent_variables("mode")
    for name, shp in individual_shapes(s, 3).items():
        s[name] = torch.rand(shp, generator=g) * 0.1
    msk = torch.ones((3, 2, m.dimension), dtype=torch.bool)
    m._put_data_timepoints(s, WeightedTensor(torch.rand((3, 2), generator=g) + 1.0, msk.any(-1)))
    s["y"] = WeightedTensor(torch.rand((3, 2, m.dimension), generator=g), msk)
    if "event" in real_dag:
        s["event"] = WeightedTensor(torch.rand((3, 1), generator=g).double() + 5.0, torch.ones((3, 1), dtype=torch.bool))
    ind_nodes = set()
    for n in real_dag:
        if n.startswith("predictions_"):
            continue
        v = s[n]
        shp = tuple(v.shape)
        if len(shp) >= 1 and shp[0] == 3:
            ind_nodes.add(n)
    specs = {}
    for n in real_dag:
        var = real_dag[n]
        if n.startswith("predictions_"):
            # numerical quadrature node of the joint model: keep it in the graph as an abstract function too
            pass
        if isinstance(var, LinkedVariable):
            parents = sorted(var.get_ancestors_names())
            specs[n] = LinkedVariable(_uf_node(n, parents, ind_nodes))
        elif isinstance(var, Hyperparameter):
            specs[n] = Hyperparameter(torch.tensor([0.5]))
        else:
            specs[n] = var  # ModelParameter / DataVariable / latent variables: the real specs objects
    dag = VariablesDAG.from_dict(specs)
    return dag, ind_nodes, m


# ------------------------------------------------------------------------------------------------------------------
# the history harness
# ------------------------------------------------------------------------------------------------------------------
class Harness:
    def __init__(self, dag, ind_nodes, alphabet, model_graph=False):
        self.dag = dag
        self.ind = ind_nodes
        self.roots = [n for n in dag if isinstance(dag[n], IndepVariable) and dag[n].is_settable]
        self.all_roots = list(self.roots)
        self.derived = [n for n in dag if isinstance(dag[n], LinkedVariable)]
        self.hypers = [n for n in dag if isinstance(dag[n], Hyperparameter)]
        self.alphabet = alphabet
        self.fresh = itertools.count()
        self.model_graph = model_graph

    def shape(self, n):
        return (N_IND,) if n in self.ind else (1,)

    def new_value(self, n):
        return st.sym(f"{n}${next(self.fresh)}", self.shape(n), register=False)

    def ops(self, read_nodes=None):
        o = []
        A = self.alphabet
        for r in self.roots:
            o.append(("set", r))
        if "unset" in A:
            for r in self.roots:
                o.append(("unset", r))
        if "put" in A:
            for r in self.roots:
                o.append(("put_acc", r))
                if r in self.ind:
                    o.append(("put_idx", r, False))
                    o.append(("put_idx", r, True))
        for n in (read_nodes or (self.derived + self.roots[:1])):
            o.append(("read", n))
        o.append(("revert",))
        o.append(("revert_mask",))
        o.append(("fork", None))
        o.append(("fork", StateForkType.REF))
        if "copy" in A:
            o.append(("fork", StateForkType.COPY))
        if "clone" in A:
            for dis in (False, True):
                for keep in (False, True):
                    o.append(("clone", dis, keep))
        if "bulk" in A:
            o.append(("precompute",))
            o.append(("clear",))
        if self.model_graph and "latent" in A:
            o.append(("pop_mode",))
            o.append(("pop_none",))
            o.append(("ind_none",))
        return o

    # --- oracle -------------------------------------------------------------------------------------------------
    def roots_env(self, S):
        env = {}
        for n in self.dag:
            if isinstance(self.dag[n], IndepVariable):
                env[n] = S._values[n]
        return env

    def scratch(self, n, env, memo):
        """from-scratch value of node n over env (None if some needed independent value is unset)"""
        if n in memo:
            return memo[n]
        var = self.dag[n]
        if isinstance(var, IndepVariable):
            v = env[n]
            memo[n] = None if v is None else st.to_terms(v.value if isinstance(v, WeightedTensor) else v).reshape(-1)
            return memo[n]
        parents = list(var.f.parameters)
        vals = [self.scratch(p, env, memo) for p in parents]
        if any(v is None for v in vals):
            memo[n] = None
            return None
        k = N_IND if any(len(v) == N_IND and p in self.ind for v, p in zip(vals, parents)) else 1
        out = np.empty((k,), dtype=object)
        for i in range(k):
            args = [v[i] if p in self.ind else v[0] for v, p in zip(vals, parents)]
            out[i] = T.apply_fn("F_" + n, tuple(args))
        memo[n] = out
        return out

    def check_read(self, S, n, rec, log):
        env = self.roots_env(S)
        expect = self.scratch(n, env, {})
        try:
            got = S[n]
        except LeaspyInputError:
            if expect is not None:
                return f"spurious LeaspyInputError reading {n}"
            return None
        if expect is None:
            return f"read of {n} answered although a needed independent value is unset"
        g = st.to_terms(got.value if isinstance(got, WeightedTensor) else got).reshape(-1)
        if len(g) != len(expect):
            return f"read of {n}: shape {len(g)} != {len(expect)}"
        for a, b in zip(g, expect):
            if a.eq(b):
                continue
            v = T.prove(a == b, timeout_ms=20000)
            rec.queries += 0
            if v.status != "unsat":
                return f"stale value read for {n} ({v.status})"
        return None

    # --- one history ----------------------------------------------------------------------------------------------
    def start_state(self, kind):
        S = State(self.dag, auto_fork_type=StateForkType.REF)
        self.last_forked = None
        self.reads_since = set()
        if kind == "empty":
            return S
        with S.auto_fork(None):
            for r in self.all_roots:
                S[r] = self.new_value(r)
        if kind in ("cached", "forked"):
            for n in self.dag:
                S[n]
        if kind == "forked":
            r = self.roots[-1]
            S[r] = self.new_value(r)
            self.last_forked = r
            for n in self.dag:
                S[n]
                self.reads_since.add(n)
        return S

    def apply(self, S, op, rec, log):
        """apply one op; returns (S, error-or-None)"""
        k = op[0]
        if k == "set":
            r = op[1]
            v = self.new_value(r)
            S[r] = v
            if not S._values[r] is v:
                return S, f"set {r}: value not stored"
            if S.auto_fork_type is not None:
                self.last_forked, self.reads_since = r, set()
        elif k == "unset":
            S[op[1]] = None
            if S.auto_fork_type is not None:
                self.last_forked, self.reads_since = op[1], set()
        elif k in ("put_acc", "put_idx"):
            r = op[1]
            before = S._values[r]
            try:
                if k == "put_acc":
                    delta = self.new_value(r)
                    S.put(r, delta, accumulate=True)
                    exp = None if before is None else [T.mk_add(a, b) for a, b in zip(st.to_terms(before).reshape(-1), delta.sym.reshape(-1))]
                else:
                    i = T.choose(N_IND)
                    delta = st.sym(f"d${next(self.fresh)}", (), register=False)
                    S.put(r, delta, indices=(i,), accumulate=op[2])
                    if before is None:
                        exp = None
                    else:
                        exp = list(st.to_terms(before).reshape(-1))
                        exp[i] = T.mk_add(exp[i], delta.sym[()]) if op[2] else delta.sym[()]
            except LeaspyInputError:
                if before is not None:
                    return S, f"{k} {r}: spurious LeaspyInputError"
                return S, None
            if before is None:
                return S, f"{k} on unset {r} answered"
            got = st.to_terms(S._values[r]).reshape(-1)
            for a, b in zip(got, exp):
                if not a.eq(b) and T.prove(a == b, timeout_ms=20000).status != "unsat":
                    return S, f"{k} {r}: stored value is not the documented one"
            if S.auto_fork_type is not None:
                self.last_forked, self.reads_since = r, set()
        elif k == "read":
            err = self.check_read(S, op[1], rec, log)
            self.reads_since.add(op[1])
            if err:
                return S, err
        elif k == "revert":
            try:
                S.revert()
            except LeaspyInputError:
                pass
            self.last_forked, self.reads_since = None, set()
        elif k == "revert_mask":
            # documented precondition of the per-individual revert
            lf = self.last_forked
            if S._last_fork is not None and not (lf is not None and lf in self.ind and all(n in self.ind for n in self.reads_since)):
                return S, "SKIP"
            mask = st.sym(f"mask${next(self.fresh)}", (N_IND,), torch.bool, register=False)
            try:
                S.revert(mask)
            except LeaspyInputError:
                pass
            self.last_forked, self.reads_since = None, set()
        elif k == "fork":
            S.auto_fork_type = op[1]
        elif k == "clone":
            before_roots = {r: S._values[r] for r in self.roots}
            C = S.clone(disable_auto_fork=op[1], keep_last_fork=op[2])
            # the clone must hold the same values ...
            for n in self.dag:
                a, b = S._values[n], C._values[n]
                if (a is None) != (b is None):
                    return S, f"clone: cache of {n} differs"
            # ... and be independent of the original: scribble on the original, the clone must not move
            with S.auto_fork(None):
                S[self.roots[0]] = self.new_value(self.roots[0])
            for r in self.roots:
                a, b = before_roots[r], C._values[r]
                if (a is None) != (b is None) or (a is not None and not all(x.eq(y) for x, y in zip(st.to_terms(a).reshape(-1), st.to_terms(b).reshape(-1)))):
                    return S, f"clone shares storage with the original ({r} moved)"
            if op[1] and C.auto_fork_type is not None:
                return S, "clone(disable_auto_fork=True) still auto-forks"
            if not op[2] and C._last_fork is not None:
                return S, "clone(keep_last_fork=False) kept the fork"
            if not op[2]:
                self.last_forked, self.reads_since = None, set()
            S = C
        elif k == "precompute":
            env = self.roots_env(S)
            unset = any(env[r] is None for r in env)
            try:
                S.precompute_all()
                if unset:
                    return S, "precompute_all answered although an independent value is unset"
            except LeaspyInputError:
                if not unset:
                    return S, "precompute_all: spurious LeaspyInputError"
            self.reads_since |= set(self.dag)
        elif k == "clear":
            S.clear()
            self.last_forked, self.reads_since = None, set()
            for r in self.roots:
                if S._values[r] is not None:
                    return S, "clear left a value"
        elif k == "pop_mode":
            try:
                S.put_population_latent_variables("mode")
            except LeaspyInputError:
                pass
            self.last_forked, self.reads_since = ("?" if S.auto_fork_type is not None else self.last_forked), set()
        elif k == "pop_none":
            S.put_population_latent_variables(None)
            self.last_forked, self.reads_since = ("?" if S.auto_fork_type is not None else self.last_forked), set()
        elif k == "ind_none":
            S.put_individual_latent_variables(None)
            self.last_forked, self.reads_since = ("?" if S.auto_fork_type is not None else self.last_forked), set()
        return S, None

    def final_sweep(self, S, rec, log):
        """after the history: every node read must be fresh"""
        for n in self.derived:
            err = self.check_read(S, n, rec, log)
            if err:
                return err
        return None


def _fmt(op):
    return " ".join("off" if x is None else (x.name if isinstance(x, StateForkType) else str(x)) for x in op)


def _replay_script(graph_desc, start, log):
    """stand-alone concrete replay on the real State with arithmetic node functions"""
    return f"""
from leaspy.variables.dag import VariablesDAG
from leaspy.variables.specs import DataVariable, Hyperparameter, LinkedVariable, IndepVariable
from leaspy.variables.state import State, StateForkType
from leaspy.utils.functional import NamedInputFunction
from leaspy.exceptions import LeaspyInputError
import itertools
GRAPH = {graph_desc!r}   # (pop roots, ind roots, hypers, derived->parents)
START = {start!r}
LOG = {log!r}
N = 2
pops, inds, hypers, derived = GRAPH
ind_nodes = set(inds)
ch = True
while ch:
    ch = False
    for n, ps in derived.items():
        if n not in ind_nodes and any(p in ind_nodes for p in ps): ind_nodes.add(n); ch = True
PRIMES = [3., 5., 7., 11., 13., 17.]
def mkf(n, ps):
    def f(*vals):
        out = 0.
        for c, v in zip(PRIMES, vals): out = out + c * v * v + v
        return out + float(len(n))
    return NamedInputFunction(f=f, parameters=tuple(ps))
specs = {{}}
for r in pops + inds: specs[r] = DataVariable()
for h in hypers: specs[h] = Hyperparameter(torch.tensor([0.5]))
for n, ps in derived.items(): specs[n] = LinkedVariable(mkf(n, ps))
dag = VariablesDAG.from_dict(specs)
cnt = itertools.count(1)
def val(n): return torch.rand((N,) if n in ind_nodes else (1,), dtype=torch.float64) + next(cnt)
def scratch(n, S, memo):
    if n in memo: return memo[n]
    var = dag[n]
    if isinstance(var, IndepVariable): memo[n] = S._values[n]; return memo[n]
    vs = [scratch(p, S, memo) for p in var.f.parameters]
    memo[n] = None if any(v is None for v in vs) else var.f.f(*vs)
    return memo[n]
def check(S, n):
    exp = scratch(n, S, {{}})
    try: got = S[n]
    except LeaspyInputError:
        return None if exp is None else 'spurious input error on ' + n
    if exp is None: return 'answered read of ' + n + ' with unset input'
    return None if torch.equal(got, exp.expand_as(got)) else f'STALE {{n}}: got {{got}} expected {{exp}}'
torch.manual_seed(0)
roots = pops + inds
S = State(dag, auto_fork_type=StateForkType.REF)
if START != 'empty':
    with S.auto_fork(None):
        for r in roots: S[r] = val(r)
if START in ('cached', 'forked'):
    for n in dag: S[n]
if START == 'forked':
    S[roots[-1]] = val(roots[-1])
    for n in dag: S[n]
bad = None
for op in LOG:
    k = op[0]
    try:
        if k == 'set': S[op[1]] = val(op[1])
        elif k == 'unset': S[op[1]] = None
        elif k == 'put_acc': S.put(op[1], val(op[1]), accumulate=True)
        elif k == 'put_idx': S.put(op[1], torch.rand((), dtype=torch.float64) + next(cnt), indices=(op[3],), accumulate=op[2])
        elif k == 'read': bad = check(S, op[1])
        elif k == 'revert': S.revert()
        elif k == 'revert_mask': S.revert(torch.tensor(op[1]))
        elif k == 'fork': S.auto_fork_type = {{None: None, 'REF': StateForkType.REF, 'COPY': StateForkType.COPY}}[op[1]]
        elif k == 'clone':
            C = S.clone(disable_auto_fork=op[1], keep_last_fork=op[2])
            with S.auto_fork(None): S[roots[0]] = val(roots[0])
            S = C
        elif k == 'precompute': S.precompute_all()
        elif k == 'clear': S.clear()
    except LeaspyInputError:
        pass
    if bad: break
if not bad:
    for n in derived:
        bad = check(S, n)
        if bad: break
print('history:', LOG); print('result:', bad)
sys.exit(1 if bad else 0)
"""


def history_task(graph, start, depth, alphabet, first=None, model=None):
    task = f"histories[{graph},start={start},depth={depth},{'+'.join(sorted(alphabet))},first={first}]"

    def body():
        rec = Recorder(PROP, task, [State.__getitem__, State.__setitem__, State.put, State.revert, State.clone, State.clear, State.precompute_all,
                                    State._get_or_compute_and_cache, VariablesDAG.__post_init__, VariablesDAG.compute_topological_order_and_path_matrix, LinkedVariable.compute])
        if model is None:
            dag, ind_nodes = build_toy(graph)
            mg = False
        else:
            dag, ind_nodes, _m = build_model_graph(*model)
            mg = True
        H = Harness(dag, ind_nodes, set(alphabet), mg)
        read_nodes = None
        if mg:
            # reads the algorithms perform + a few internal nodes
            cand = ["model", "nll_attach_ind", "nll_attach", "nll_regul_ind_sum_ind", "nll_regul_ind_sum", "nll_tot" if "nll_tot" in dag else "nll_attach", "xi", "v0" if "v0" in dag else "alpha", "mixing_matrix" if "mixing_matrix" in dag else "rt"]
            read_nodes = [c_ for c_ in dict.fromkeys(cand) if c_ in dag]
            H.roots = [r for r in H.roots if r in ("xi", "tau", "log_v0", "betas", "noise_std", "y", "log_g", "g", "sources", "tau_mean", "t") and r in dag]
        ops_holder = {}
        if first is not None and first >= len(H.ops(read_nodes)):
            return rec.result()

        def run():
            H.fresh = itertools.count()
            S = H.start_state(start)
            ops = H.ops(read_nodes)
            ops_holder["n"] = len(ops)
            log = []
            for step in range(depth):
                op = ops[T.choose(len(ops))]
                S, err = H.apply(S, op, rec, log)
                if err == "SKIP":
                    log.append(("skip",))
                    continue
                log.append(op)
                if err:
                    return ("BAD", err, log)
            err = H.final_sweep(S, rec, log)
            if err:
                return ("BAD", err + " (final sweep)", log)
            return ("ok", None, log)

        n_bad = 0
        prefix0 = [] if first is None else [first]
        for c, res in st.explore(run, "R", prefix0=prefix0):
            if isinstance(res, Exception):
                raise res
            rec.end_path(c)
            rec.obligations += 1
            status, err, log = res
            if status == "ok":
                rec.discharged += 1
                if rec.paths in (1, 77, 777):
                    rec.sample({"graph": graph, "start": start, "history": [_fmt(o) for o in log], "verdict": "all reads fresh"})
                continue
            n_bad += 1
            if n_bad > 3:
                continue
            # concrete replay on the real State (toy graphs only: the script rebuilds the same graph with arithmetic definitions)
            clog = []
            for o in log:
                if o[0] == "fork":
                    clog.append(("fork", None if o[1] is None else o[1].name))
                elif o[0] == "revert_mask":
                    clog.append(("revert_mask", [True, False]))
                elif o[0] == "put_idx":
                    clog.append(("put_idx", o[1], o[2], 0))
                elif o[0] == "skip":
                    continue
                else:
                    clog.append(tuple(o))
            key = "C01:" + err.split(" (")[0].split(":")[0]
            if model is None:
                rec.violation_from_script(f"history#{rec.paths}", _classify(log, err), _replay_script(TOY[graph], start, clog), what=f"{err}; history={[_fmt(o) for o in log]}")
            else:
                rec.unreproduced.append(f"{task}: {err}; history={[_fmt(o) for o in log]} (model-graph histories have no concrete replay; see toy graphs)")
        rec.notes.append(f"alphabet size {ops_holder.get('n')}")
        return rec.result()

    return guarded(PROP, task, body)


def _classify(log, err):
    """witness class of a stale-read history (used as the known-finding key)"""
    kinds = [o[0] + ("-off" if (o[0] == "fork" and o[1] is None) else "") for o in log]
    if "fork-off" in kinds and "revert" in kinds[kinds.index("fork-off"):] and any(k in ("set", "put_acc", "put_idx", "unset") for k in kinds[kinds.index("fork-off"):]):
        return "C01:stale-after-revert-following-unforked-assignment"
    return "C01:" + err.split(" (")[0][:60] + "|" + ">".join(kinds)


FULL = {"unset", "put", "copy", "clone", "bulk"}
REDUCED = {"put"}


def _n_ops(graph, alphabet):
    dag, ind_nodes = build_toy(graph)
    return len(Harness(dag, ind_nodes, set(alphabet)).ops())


def tasks(tier, seed=0):
    ts = []
    starts = ["empty", "set", "cached", "forked"]
    graphs_q = ["diamond_late_root", "two_roots_grandchild"]
    graphs_t = list(TOY)

    def split(g, s_, depth, alpha):
        for f in range(_n_ops(g, alpha)):
            ts.append(("history_task", dict(graph=g, start=s_, depth=depth, alphabet=sorted(alpha), first=f)))

    if tier == "quick":
        for g in graphs_q:
            for s_ in starts:
                split(g, s_, 3, FULL)
        split("two_roots_grandchild", "forked", 4, REDUCED)
        split("two_roots_grandchild", "set", 4, {"copy"})
        ts.append(("history_task", dict(graph="hyper_fed", start="forked", depth=3, alphabet=sorted(FULL))))
        for kind, kw in [("logistic", dict(features=["a", "b"], source_dimension=1)), ("linear", dict(features=["a", "b"], source_dimension=0))]:
            for s_ in ("cached", "forked"):
                ts.append(("history_task", dict(graph=cfg_name(kind, kw), start=s_, depth=2, alphabet=sorted({"put", "latent"}), model=(kind, kw))))
    else:
        for g in graphs_t:
            for s_ in starts:
                split(g, s_, 3, FULL)
        for g in ("diamond_late_root", "two_roots_grandchild"):
            for s_ in ("set", "forked"):
                split(g, s_, 4, FULL)
        split("two_roots_grandchild", "forked", 5, REDUCED)
        split("two_roots_grandchild", "set", 4, {"copy"})
        for kind, kw in [("logistic", dict(features=["a", "b"], source_dimension=1)), ("linear", dict(features=["a", "b"], source_dimension=0)),
                         ("shared_speed_logistic", dict(features=["a", "b"], source_dimension=1)), ("joint", dict(features=["a"], source_dimension=0, nb_events=1))]:
            for s_ in ("set", "cached", "forked"):
                ts.append(("history_task", dict(graph=cfg_name(kind, kw), start=s_, depth=2, alphabet=sorted({"put", "latent"}), model=(kind, kw))))
        # depth 3 on the logistic graph from the pending-fork start, split by first operation (each path re-executes a 50-node graph)
        kind, kw = "logistic", dict(features=["a", "b"], source_dimension=1)
        for f in range(45):
            ts.append(("history_task", dict(graph=cfg_name(kind, kw), start="forked", depth=3, alphabet=sorted({"put", "latent"}), model=(kind, kw), first=f)))
    return ts
