"""C12 — a fitted model is self-consistent and survives save/load unchanged (in-memory part; the JSON text layer is outside the claim).

(1) The epilogue of TensorMcmcSaemAlgorithm._run (sliced out of the current source) runs on the real State with symbolic parameters and arbitrary
leftover latent values: afterwards every population variable equals the mode of its prior under the current parameters and every derived value
read is fresh; individual values and data are unchanged.
(2) In-memory round trip to_dict -> ModelSettings -> model_factory -> load_parameters with symbolic parameter values: same parameters,
hyperparameters and trajectories, and to_dict of the reloaded model reproduces the dictionary.
"""
from __future__ import annotations

import ast

import numpy as np
import torch
import z3

from harness.realmodel import *  # noqa
from leaspy.algo.fit.mcmc_saem import TensorMcmcSaemAlgorithm
from leaspy.models.base import BaseModel
from leaspy.models.factory import model_factory
from leaspy.models.settings import ModelSettings
from leaspy.models.stateful import StatefulModel
from leaspy.variables.specs import IndividualLatentVariable, ModelParameter, PopulationLatentVariable, LinkedVariable
from vcheck import slices
from vcheck.common import Recorder, guarded, tensor_literal

PROP = "C12"
META = dict(
    explanation="The fit epilogue (ast slice of _run) and the in-memory save/load chain run on the real model objects with symbolic parameter values; population "
    "variables are proved equal to the prior modes under the final parameters, derived values fresh, and the reloaded model proved to carry term-equal "
    "parameters, equal hyperparameters, identical trajectories and an identical dictionary.",
    bounds="logistic (sources 0..1), linear, joint; dimension 2; 2 individuals x 2 visits of leftovers; 2 requested ages; instance name = model kind and an arbitrary one",
    outside="JSON text layer (json.dump/load, float repr -> float32), file I/O, torch_round",
    assumptions=["torch.tensor -> symbolic factory in load_parameters", "tolist() yields symbolic scalars"],
)


def epilogue_task(kind, kw):
    task = f"fit-epilogue[{cfg_name(kind, kw)}]"

    def body():
        m = build_model(kind, **kw)
        fn = TensorMcmcSaemAlgorithm._run
        rec = Recorder(PROP, task, [fn, State.put_population_latent_variables, State.clone])
        node = slices.function_ast(fn)
        # statements after the `with self._device_manager(...)` block
        idx = [k for k, s_ in enumerate(node.body) if isinstance(s_, ast.With)]
        if not idx:
            raise slices.SliceError("`with self._device_manager` block not found in TensorMcmcSaemAlgorithm._run")
        tail = [s_ for s_ in node.body[idx[0] + 1 :] if not isinstance(s_, ast.Return)]
        src = "def epilogue(self, model, state):\n" + "\n".join("    " + ln for s_ in tail for ln in ast.unparse(s_).splitlines()) + "\n"
        import leaspy.algo.fit.mcmc_saem as mod

        g = dict(vars(mod))
        exec(compile(src, "<epilogue slice of _run>", "exec"), g)
        st.new_context("R")
        s = m.state
        ins = {}
        ins.update(put_symbolic_parameters(s))
        ins.update(put_symbolic_population(s, prefix="leftover_"))  # arbitrary values left by the last sampling iteration
        ins.update(put_symbolic_individuals(s, 2))
        ins.update(put_symbolic_data(s, m, 2, 2))
        s["model"]
        ind_before = {k: s._values[k] for k in list(by_type(m.dag, IndividualLatentVariable)) + ["t", "y"]}

        class Host:
            def _get_fit_metrics(self):
                return {"nll_tot": 1.0}

        g["epilogue"](Host(), m, s)
        s1 = m.state
        rec.obligations += 1
        if s1 is not s and s1.dag is s.dag:
            rec.discharged += 1
        else:
            rec.unreproduced.append(f"{task}: the model does not get a cloned state")

        def rp(model):
            return f"""
from leaspy.models.factory import model_factory
from leaspy.algo import AlgorithmSettings
import numpy as np, pandas as pd
from leaspy.io.data import Data
from leaspy.variables.specs import PopulationLatentVariable
rng = np.random.default_rng(0)
rows = [(str(i), 60 + 3 * j + i, *np.clip(0.2 + 0.05 * j + 0.02 * i + 0.01 * rng.standard_normal({m.dimension}), 0.01, 0.99)) for i in range(12) for j in range(4)]
df = pd.DataFrame(rows, columns=['ID', 'TIME'] + {m.features!r})
m = model_factory({kind!r}, **{kw!r})
m.fit(Data.from_dataframe(df), 'mcmc_saem', seed=0, n_iter=30, progress_bar=False)
bad = []
for v, var in m.dag.sorted_variables_by_type[PopulationLatentVariable].items():
    loc = m.state[var.prior.parameters_names[0]]
    if not torch.equal(m.state[v], loc.expand_as(m.state[v])): bad.append(v)
print(bad); sys.exit(1 if bad else 0)
"""

        for v, var in by_type(m.dag, PopulationLatentVariable).items():
            loc_name = var.prior.parameters_names[0]
            got = st.to_terms(s1[v])
            loc = np.broadcast_to(st.to_terms(s1[loc_name]), got.shape)
            for idx_ in np.ndindex(*got.shape):
                rec.prove(f"{v}{list(idx_)}==mode", got[idx_] == loc[idx_], replay=rp, key="C12:population-not-prior-mode", what="after the fit a population variable is not the mode of its prior under the final parameters")
        # derived values agree with the saved parameters: re-read on a state rebuilt from the parameters only
        ref = fresh_state(m)
        with ref.auto_fork(None):
            for p in by_type(m.dag, ModelParameter):
                ref[p] = s1[p]
            ref.put_population_latent_variables("mode")
        for n in ("v0", "g", "metric", "mixing_matrix", "orthonormal_basis"):
            if n in m.dag:
                a, b = st.to_terms(s1[n]), st.to_terms(ref[n])
                for idx_ in np.ndindex(*a.shape):
                    if not a[idx_].eq(b[idx_]):
                        rec.prove(f"derived[{n}]{list(idx_)}", a[idx_] == b[idx_], replay=rp, key="C12:derived-stale", timeout_ms=60000, what=f"{n} kept in the model disagrees with the saved parameters")
                    else:
                        rec.obligations += 1
                        rec.discharged += 1
        rec.obligations += 1
        if all(s1._values[k] is not None and all(x.eq(y) for x, y in zip(value_terms(s1._values[k])[0].reshape(-1), value_terms(v_)[0].reshape(-1))) for k, v_ in ind_before.items()):
            rec.discharged += 1
        else:
            rec.unreproduced.append(f"{task}: individual values / data changed by the epilogue")
        rec.sample({"model": cfg_name(kind, kw), "population_variables": list(by_type(m.dag, PopulationLatentVariable))})
        rec.end_path()
        return rec.result()

    return guarded(PROP, task, body)


def roundtrip_task(kind, kw, instance_name):
    task = f"save-load[{cfg_name(kind, kw)},name={instance_name!r}]"

    def body():
        from leaspy.models.factory import ModelName

        cls = type(model_factory(kind, **kw))
        m = cls(instance_name, **kw)
        m._initialize_state()
        rec = Recorder(PROP, task, [BaseModel.to_dict, type(m).to_dict, ModelSettings.__init__, model_factory, StatefulModel.load_parameters, BaseModel.load.__func__])
        st.new_context("R")
        ins = put_symbolic_parameters(m.state)
        m.state.put_population_latent_variables("mode")
        m._is_initialized = True
        saved = torch.tensor

        def sym_tensor(data, dtype=None, **kw_):
            if isinstance(data, (st.SymTensor,)):
                return data
            arr = np.array(data, dtype=object)
            if not any(isinstance(x, st.SymScalar) for x in arr.reshape(-1)):
                return saved(data, dtype=dtype, **kw_)
            out = np.empty(arr.shape, dtype=object)
            for idx in np.ndindex(*arr.shape):
                x = arr[idx]
                out[idx] = x.term if isinstance(x, st.SymScalar) else T.const_of(float(x), torch.float32)
            return st.mk(out, dtype or torch.float32)

        rec.stubs.append("torch.tensor -> symbolic factory (lists of symbolic scalars)")
        script = f"""
import json, tempfile, os
from leaspy.models.factory import model_factory
from leaspy.models.base import BaseModel
from leaspy.variables.specs import ModelParameter
cls = type(model_factory({kind!r}, **{kw!r}))
m = cls({instance_name!r}, **{kw!r}); m._initialize_state()
g = torch.Generator().manual_seed(0)
for p, var in m.dag.sorted_variables_by_type[ModelParameter].items(): m.state[p] = (torch.rand(tuple(var.shape), generator=g) * 0.5 + 0.25) * (100.0 if p == 'tau_mean' else 1.0)
m.state.put_population_latent_variables('mode'); m._is_initialized = True
d = tempfile.mkdtemp(); p1 = os.path.join(d, 'm.json'); p2 = os.path.join(d, 'm2.json')
m.save(p1)
try:
    r = BaseModel.load(p1)
except Exception as e:
    print('reload failed:', type(e).__name__, str(e)[:100]); sys.exit(1)
r.save(p2)
bad = [k for k in m.parameters if not torch.allclose(m.parameters[k], r.parameters[k], rtol=1e-6)]
ip = {{'xi': 0.1, 'tau': 72.0{", 'sources': [0.2] * m.source_dimension" if kw.get('source_dimension') else ''}}}
if not torch.allclose(m.compute_individual_trajectory([70., 75.], ip), r.compute_individual_trajectory([70., 75.], ip), rtol=1e-5, atol=1e-6): bad.append('trajectory')
if json.load(open(p1)) != json.load(open(p2)): bad.append('file not reproduced')
print(bad); sys.exit(1 if bad else 0)
"""
        d1 = m.to_dict()
        torch.tensor = sym_tensor
        try:
            try:
                reader = ModelSettings(d1)
                r = model_factory(reader.name, **reader.hyperparameters)
            except Exception as e:
                key = "C12:instance-name-not-a-model-kind" if instance_name not in [x.value for x in ModelName] else f"C12:reload-fails:{type(e).__name__}"
                rec.violation_from_script("reload", key, script, what=f"a model saved under the instance name {instance_name!r} cannot be reloaded: {type(e).__name__}: {str(e)[:80]}")
                return rec.result()
            r.load_parameters(reader.parameters)
            r._is_initialized = True
        finally:
            torch.tensor = saved
        rec.obligations += 1
        if r.name == m.name and r.features == m.features and r.dimension == m.dimension and getattr(r, "source_dimension", None) == getattr(m, "source_dimension", None) and r.observation_model_names == m.observation_model_names and type(r) is type(m):
            rec.discharged += 1
        else:
            rec.violation_from_script("hyperparameters", "C12:hyperparameters-changed", script, what="name / features / dimension / sources / observation models / kind differ after reload")
        for p, v in m.parameters.items():
            a, b = st.to_terms(v), st.to_terms(r.parameters[p])
            rec.obligations += 1
            if a.shape == b.shape and all(x.eq(y) for x, y in zip(a.reshape(-1), b.reshape(-1))):
                rec.discharged += 1
            else:
                ok = a.size == b.size and all(T.prove(x == y, 10000).status == "unsat" for x, y in zip(a.reshape(-1), b.reshape(-1)))
                if ok and a.shape == b.shape:
                    rec.discharged += 1
                else:
                    rec.violation_from_script(f"parameter[{p}]", "C12:parameter-changed", script, what=f"parameter {p} differs after reload (shape {a.shape} vs {b.shape})")
        for h in m.hyperparameters:
            rec.obligations += 1
            if torch.equal(torch.as_tensor(m.hyperparameters[h]), torch.as_tensor(r.hyperparameters[h])):
                rec.discharged += 1
            else:
                rec.violation_from_script(f"hyper[{h}]", "C12:hyperparameters-changed", script, what=f"hyperparameter {h} differs after reload")
        # trajectories on symbolic individual parameters / ages
        ages = st.sym("ages", (2,))
        ip = {"xi": st.sym("q_xi", ()), "tau": st.sym("q_tau", ())}
        if getattr(m, "has_sources", False):
            ip["sources"] = st.sym("q_src", (m.source_dimension,))
        ta, tb = st.to_terms(m.compute_individual_trajectory(ages, ip)), st.to_terms(r.compute_individual_trajectory(ages, ip))
        for idx in np.ndindex(*ta.shape):
            if ta[idx].eq(tb[idx]):
                rec.obligations += 1
                rec.discharged += 1
            else:
                rec.prove(f"trajectory{list(idx)}", ta[idx] == tb[idx], replay=lambda m_: script, key="C12:trajectory-changed", timeout_ms=60000, what="trajectory of the reloaded model differs")
        d2 = r.to_dict()
        rec.obligations += 1

        def same(x, y):
            if isinstance(x, dict):
                return isinstance(y, dict) and list(x) == list(y) and all(same(x[k], y[k]) for k in x)
            if isinstance(x, (list, tuple)):
                return isinstance(y, (list, tuple)) and len(x) == len(y) and all(same(a_, b_) for a_, b_ in zip(x, y))
            if isinstance(x, st.SymScalar) or isinstance(y, st.SymScalar):
                return isinstance(x, st.SymScalar) and isinstance(y, st.SymScalar) and (x.term.eq(y.term) or T.prove(x.term == y.term, 10000).status == "unsat")
            return x == y

        if same(d1, d2):
            rec.discharged += 1
        else:
            diff = [k for k in d1 if k not in d2 or not same(d1[k], d2[k])]
            rec.violation_from_script("dict-reproduced", "C12:file-not-reproduced", script, what=f"saving the reloaded model does not reproduce the dictionary (keys {diff})")
        rec.sample({"model": cfg_name(kind, kw), "instance_name": instance_name, "keys": list(d1)})
        rec.end_path()
        return rec.result()

    return guarded(PROP, task, body)


def tasks(tier, seed=0):
    ts = []
    cfgs = [("logistic", dict(features=["a", "b"], source_dimension=1)), ("logistic", dict(features=["a", "b"], source_dimension=0, obs_models="gaussian-scalar")), ("linear", dict(features=["a", "b"], source_dimension=1))]
    if tier == "thorough":
        cfgs += [("joint", dict(features=["a"], source_dimension=0, nb_events=1)), ("shared_speed_logistic", dict(features=["a", "b"], source_dimension=1)), ("logistic", dict(features=["f 1", "f_2", "3"], source_dimension=2))]
    for kind, kw in cfgs:
        ts.append(("epilogue_task", dict(kind=kind, kw=kw)))
        ts.append(("roundtrip_task", dict(kind=kind, kw=kw, instance_name=kind)))
    ts.append(("roundtrip_task", dict(kind="logistic", kw=cfgs[0][1], instance_name="my_model")))
    if tier == "quick":
        # a square (2x2) and a tall (3x2) parameter matrix: layouts that a reshape / transpose slip in the loader would scramble
        ts.append(("roundtrip_task", dict(kind="logistic", kw=dict(features=["f 1", "f_2", "3"], source_dimension=2), instance_name="logistic")))
    else:
        ts.append(("roundtrip_task", dict(kind="logistic", kw=dict(features=["a", "b", "c", "d"], source_dimension=2), instance_name="logistic")))
    return ts


def load_over_existing_task(kind, kw):
    """load_parameters on a model that already holds population values (after a fit / initialisation / earlier load): the population variables must
    become the prior modes of the NEW parameters and every derived value must agree with them."""
    task = f"load-over-existing[{cfg_name(kind, kw)}]"

    def body():
        m = build_model(kind, **kw)
        rec = Recorder(PROP, task, [StatefulModel.load_parameters, State.put_population_latent_variables])
        st.new_context("R")
        old = put_symbolic_parameters(m.state, prefix="old_")
        m.state.put_population_latent_variables("mode")
        for n in m.dag:
            if isinstance(m.dag[n], LinkedVariable) and n in ("v0", "g", "metric", "mixing_matrix"):
                m.state[n]  # cached derived values of the old parameters
        new = {p: st.sym("new_" + p, tuple(var.shape)) for p, var in by_type(m.dag, ModelParameter).items()}
        for p, t in new.items():
            if p.endswith("_std"):
                for x in t.sym.reshape(-1):
                    T.assume(x > 0)
        m.load_parameters(dict(new))
        script = f"""
from leaspy.models.factory import model_factory
from leaspy.variables.specs import ModelParameter, PopulationLatentVariable
m = model_factory({kind!r}, **{kw!r}); m._initialize_state()
g = torch.Generator().manual_seed(0)
mk = lambda: {{p: (torch.rand(tuple(var.shape), generator=g) * 0.5 + 0.25) * (100.0 if p == 'tau_mean' else 1.0) for p, var in m.dag.sorted_variables_by_type[ModelParameter].items()}}
m.load_parameters(mk()); m.state['v0']
new = mk(); m.load_parameters(new)
bad = [v for v, var in m.dag.sorted_variables_by_type[PopulationLatentVariable].items() if not torch.equal(m.state[v], m.state[var.prior.parameters_names[0]].expand_as(m.state[v]))]
ref = model_factory({kind!r}, **{kw!r}); ref._initialize_state(); ref.load_parameters(new)
bad += [n for n in ('v0', 'g') if n in m.dag and not torch.equal(m.state[n], ref.state[n])]
print(bad); sys.exit(1 if bad else 0)
"""
        for v, var in by_type(m.dag, PopulationLatentVariable).items():
            loc_name = var.prior.parameters_names[0]
            got = st.to_terms(m.state[v])
            loc = np.broadcast_to(new[loc_name].sym, got.shape)
            for idx_ in np.ndindex(*got.shape):
                if got[idx_].eq(loc[idx_]):
                    rec.obligations += 1
                    rec.discharged += 1
                else:
                    rec.prove(f"{v}{list(idx_)}==mode(new)", got[idx_] == loc[idx_], replay=lambda m_: script, key="C12:population-not-prior-mode-after-load", what="after load_parameters on an already populated model a population variable is not the prior mode of the new parameters")
        ref = fresh_state(m)
        with ref.auto_fork(None):
            for p, t in new.items():
                ref[p] = t
            ref.put_population_latent_variables("mode")
        for n in ("v0", "g", "metric", "mixing_matrix"):
            if n in m.dag:
                a, b = st.to_terms(m.state[n]), st.to_terms(ref[n])
                for idx_ in np.ndindex(*a.shape):
                    if a[idx_].eq(b[idx_]):
                        rec.obligations += 1
                        rec.discharged += 1
                    else:
                        rec.prove(f"derived[{n}]{list(idx_)}", a[idx_] == b[idx_], replay=lambda m_: script, key="C12:derived-stale-after-load", timeout_ms=60000, what=f"{n} disagrees with the loaded parameters")
        rec.sample({"model": cfg_name(kind, kw), "scenario": "load_parameters over a populated state with cached derived values"})
        rec.end_path()
        return rec.result()

    return guarded(PROP, task, body)


_tasks_c12 = tasks


def tasks(tier, seed=0):
    extra = [("load_over_existing_task", dict(kind="logistic", kw=dict(features=["a", "b"], source_dimension=1)))]
    if tier == "thorough":
        extra.append(("load_over_existing_task", dict(kind="linear", kw=dict(features=["a", "b"], source_dimension=0))))
    return _tasks_c12(tier, seed) + extra
