"""C10 — re-centring is a pure gauge change; space shifts are orthogonal to progression.

Real code executed: compute_orthonormal_basis (0-D / 1-D / 2-D metric branches, every strip_col), the DAG nodes metric_sqr ->
orthonormal_basis -> mixing_matrix -> space_shifts of the real models, RiemanianManifoldModel._center_xi_realizations /
JointModel._center_xi_realizations through compute_sufficient_statistics on the real State.
"""
from __future__ import annotations

import numpy as np
import torch
import z3

from harness.realmodel import *  # noqa
from leaspy.models.joint import JointModel
from leaspy.models.riemanian_manifold import RiemanianManifoldModel
from leaspy.utils.linalg import compute_orthonormal_basis
from vcheck.common import Recorder, guarded, tensor_literal

PROP = "C10"
META = dict(
    explanation="compute_orthonormal_basis is executed on symbolic positive velocities/metric and its columns are proved orthogonal (in the "
    "metric) to the progression direction and orthonormal; on the real DAG every row of mixing_matrix and every space shift is proved "
    "orthogonal; compute_sufficient_statistics (which re-centres) is executed on the real State and model / nll_attach_ind / event "
    "likelihood terms read before and after are proved equal entry by entry, and the new xi are proved zero-mean.",
    bounds="dimension 2..4 (basis), models with dimension 2, sources 0..1 (quick) / 2..3 features, 2 sources (thorough), 2 individuals x 2 visits",
    outside="dimension > 4; degenerate zero velocity (excluded by v0 = exp(.) > 0)",
    assumptions=["floats as reals", "lemma instances exp(a)exp(b)=exp(a+b) and sqrt(c^2 B)=c sqrt(B) (c>0), each proved/true of the real functions", "v0>0, metric>0 (exp images)"],
)


def _basis_replay(v0, G, strip_col):
    def rp(model):
        return f"""
from leaspy.utils.linalg import compute_orthonormal_basis
v0 = {tensor_literal(v0, model)}.double().abs() + 1e-3; G = {tensor_literal(G, model)}.double().abs() + 1e-3
Q = compute_orthonormal_basis(v0, G, strip_col={strip_col})
Gv = (G * v0) if G.ndim < 2 else (G @ v0)
ortho = (Q.T @ Gv).abs().max() / Gv.norm()
gram = (Q.T @ Q - torch.eye(Q.shape[1], dtype=Q.dtype)).abs().max()
print('max |<col, G v0>| / |G v0| =', float(ortho), ' max |Q^T Q - I| =', float(gram), 'shape', tuple(Q.shape))
sys.exit(1 if (ortho > 1e-9 or gram > 1e-9 or tuple(Q.shape) != (len(v0), len(v0) - 1)) else 0)
"""

    return rp


def basis_task(dim, metric_kind, strip_col):
    task = f"basis[dim={dim},metric={metric_kind},strip={strip_col}]"

    def body():
        rec = Recorder(PROP, task, [compute_orthonormal_basis])

        def run():
            v0 = st.sym("v0", (dim,))
            for x in v0.sym:
                T.assume(x > 0)
            if metric_kind == "1d":
                G = st.sym("G", (dim,))
                for x in G.sym:
                    T.assume(x > 0)
            elif metric_kind == "0d":
                G = st.sym("G", ())
                T.assume(G.sym[()] > 0)
            else:
                # 2-D metric: symmetric positive diagonal-dominant is not needed for orthogonality to G v0; only G v0 != 0
                G = st.sym("G", (dim, dim))
            Q = compute_orthonormal_basis(v0, G, strip_col=strip_col)
            return v0, G, Q

        for c, res in st.explore(run, "R"):
            if isinstance(res, Exception):
                if metric_kind == "2d":
                    rec.notes.append(f"2d metric path raised {type(res).__name__}")
                    rec.end_path(c)
                    continue
                raise res
            v0, G, Q = res
            rec.obligations += 1
            if tuple(Q.shape) == (dim, dim - 1):
                rec.discharged += 1
            else:
                rec.violation_from_script("shape", "C10:basis-shape", _basis_replay(v0, G, strip_col)(_Ones()), "basis has wrong shape")
                continue
            Qs = st.to_terms(Q)
            if metric_kind == "1d":
                Gv = [G.sym[k] * v0.sym[k] for k in range(dim)]
            elif metric_kind == "0d":
                Gv = [G.sym[()] * v0.sym[k] for k in range(dim)]
            else:
                Gv = [sum((G.sym[k, l] * v0.sym[l] for l in range(dim)), T.real_val(0)) for k in range(dim)]
            extra = []
            if metric_kind == "2d":
                # documented precondition: G v0 is not the null vector along strip_col sign ambiguity -> assume strip component non-zero
                extra = [Gv[strip_col] != 0]
            rp = _basis_replay(v0, G, strip_col)
            for col in range(dim - 1):
                dot = sum((Qs[k, col] * Gv[k] for k in range(dim)), T.real_val(0))
                rec.prove(f"orthogonal[col={col}]", dot == 0, replay=rp, extra=extra, timeout_ms=60000, what="basis column not orthogonal (in the metric) to the progression direction")
                for col2 in range(col, dim - 1):
                    g = sum((Qs[k, col] * Qs[k, col2] for k in range(dim)), T.real_val(0))
                    rec.prove(f"orthonormal[{col},{col2}]", g == (1 if col == col2 else 0), replay=rp, extra=extra, timeout_ms=60000, required=(dim <= 3), what="basis columns not orthonormal")
            rec.twin("ctx", extra=extra)
            rec.end_path(c)
        rec.sample({"dimension": dim, "metric": metric_kind, "strip_col": strip_col})
        return rec.result()

    return guarded(PROP, task, body)


def scale_invariance_task(dim, strip_col):
    """compute_orthonormal_basis(c * v0, G) == compute_orthonormal_basis(v0, G) for every c > 0 (used as a proved lemma by
    the gauge obligations of models with sources)."""
    task = f"basis-scale-invariance[dim={dim},strip={strip_col}]"

    def body():
        rec = Recorder(PROP, task, [compute_orthonormal_basis])

        def run():
            v0 = st.sym("v0", (dim,))
            G = st.sym("G", (dim,))
            c = st.sym("c", ())
            for x in list(v0.sym) + list(G.sym) + [c.sym[()]]:
                T.assume(x > 0)
            Q1 = compute_orthonormal_basis(v0, G, strip_col=strip_col)
            Q2 = compute_orthonormal_basis(v0 * c, G, strip_col=strip_col)
            return v0, G, c, Q1, Q2

        for cx, res in st.explore(run, "R"):
            if isinstance(res, Exception):
                raise res
            v0, G, c, Q1, Q2 = res
            cc = c.sym[()]
            r1, r2, lc, S = z3.Reals("lem_r1 lem_r2 lem_c lem_S")
            vl = T.check_sat([lc > 0, S >= 0, r1 >= 0, r2 >= 0, r1 * r1 == lc * lc * S, r2 * r2 == S, r1 != lc * r2], 20000)
            rec.obligations += 1
            if vl.status != "unsat":
                rec.inconclusive.append(f"{task}: sqrt scaling lemma not proved")
                continue
            rec.discharged += 1
            sq = list(T.ctx().sqrt_apps)
            for (A, ta) in sq:
                for (B, tb) in sq:
                    if ta is not tb:
                        T.ctx().lemmas.append(z3.Implies(A == cc * cc * B, ta == cc * tb))
            rec.lemmas.append("sqrt(c^2 B) = c sqrt(B), c>0: proved, instantiated on all sqrt pairs")

            def rp(model):
                return f"""
from leaspy.utils.linalg import compute_orthonormal_basis
v0 = {tensor_literal(v0, model)}.double().abs() + 1e-3; G = {tensor_literal(G, model)}.double().abs() + 1e-3; c = abs({tensor_literal(c, model)}.double()) + 0.1
Q1 = compute_orthonormal_basis(v0, G, strip_col={strip_col}); Q2 = compute_orthonormal_basis(c * v0, G, strip_col={strip_col})
print((Q1 - Q2).abs().max()); sys.exit(1 if (Q1 - Q2).abs().max() > 1e-9 else 0)
"""

            A1, A2 = st.to_terms(Q1), st.to_terms(Q2)
            for idx in np.ndindex(*A1.shape):
                rec.prove(f"Q{list(idx)}", A1[idx] == A2[idx], replay=rp, timeout_ms=90000, what="orthonormal basis depends on the scale of the velocity vector")
            rec.end_path(cx)
        rec.sample({"dimension": dim, "strip_col": strip_col, "claim": "Q(c v0, G) = Q(v0, G), c > 0"})
        return rec.result()

    return guarded(PROP, task, body)


class _Ones:
    def eval(self, t, model_completion=True):
        s = t.sort()
        return z3.BoolVal(True) if s == z3.BoolSort() else (z3.IntVal(1) if s == z3.IntSort() else z3.RealVal(1))


def dag_orthogonality_task(kind, kw):
    """rows of mixing_matrix and space shifts, read from the real State, are orthogonal to metric^2 * v0"""
    task = f"dag-orthogonality[{cfg_name(kind, kw)}]"

    def body():
        m = build_model(kind, **kw)
        rec = Recorder(PROP, task, [compute_orthonormal_basis, type(m).get_variables_specs, type(m).metric])

        def run():
            s, ins = populate(m, 2, 1, with_data=False)
            return s, ins, s["mixing_matrix"], s["space_shifts"], s["metric_sqr" if kind != "shared_speed_logistic" else "g_metric"], s["v0" if kind != "shared_speed_logistic" else "collin_to_d_gamma_t0"]

        for c, res in st.explore(run, "R"):
            if isinstance(res, Exception):
                raise res
            s, ins, mm, ss, msq, v0 = res
            d = m.dimension
            MM, SS, MS, V = st.to_terms(mm), st.to_terms(ss), st.to_terms(msq), st.to_terms(v0)

            def rp(model):
                return replay_prologue(kind, kw, ins, model) + (
                    f"mm = s['mixing_matrix'].double(); ss = s['space_shifts'].double()\n"
                    f"w = (s[{('metric_sqr' if kind != 'shared_speed_logistic' else 'g_metric')!r}] * s[{('v0' if kind != 'shared_speed_logistic' else 'collin_to_d_gamma_t0')!r}]).double()\n"
                    "r1 = (mm @ w).abs().max() / w.norm(); r2 = (ss @ w).abs().max() / (w.norm() * (1 + ss.abs().max()))\n"
                    "print('mixing rows . (metric^2 v0):', float(r1), ' space shifts:', float(r2))\n"
                    "sys.exit(1 if (r1 > 1e-5 or r2 > 1e-5) else 0)\n"
                )

            for s_ in range(MM.shape[0]):
                dot = sum((MM[s_, k] * MS[k] * V[k] for k in range(d)), T.real_val(0))
                rec.prove(f"mixing_row[{s_}]", dot == 0, replay=rp, timeout_ms=60000, what="mixing-matrix row not orthogonal to the direction of progression")
            for i in range(SS.shape[0]):
                dot = sum((SS[i, k] * MS[k] * V[k] for k in range(d)), T.real_val(0))
                rec.prove(f"space_shift[{i}]", dot == 0, replay=rp, timeout_ms=60000, what="space shift not orthogonal to the direction of progression")
            rec.twin("ctx")
            rec.end_path(c)
        rec.sample({"model": cfg_name(kind, kw), "rows": "mixing_matrix rows and 2 individuals' space shifts"})
        return rec.result()

    return guarded(PROP, task, body)


# ------------------------------------------------------------------------------------------------------------------
# gauge invariance of the re-centring
# ------------------------------------------------------------------------------------------------------------------
def _joint_kw(sources, nb_events=1):
    return dict(features=["a", "b"] if sources else ["a"], source_dimension=sources, nb_events=nb_events)


def put_symbolic_event(state, n_ind, nb_events=1):
    et = st.sym("event_time", (n_ind, nb_events))
    eb = st.sym("event_bool", (n_ind, nb_events), torch.bool)
    with state.auto_fork(None):
        state["event"] = WeightedTensor(et, eb)
    return dict(event_time=et, event_bool=eb)


def gauge_task(kind, kw, n_ind=2, n_vis=2):
    task = f"gauge[{cfg_name(kind, kw)}{',events=%d' % kw['nb_events'] if kw.get('nb_events', 1) > 1 else ''},n={n_ind},v={n_vis}]"

    def body():
        m = build_model(kind, **kw)
        center = type(m).__dict__.get("_center_xi_realizations") or RiemanianManifoldModel.__dict__["_center_xi_realizations"]
        rec = Recorder(PROP, task, [center.__func__, type(m).compute_sufficient_statistics.__func__, State.__setitem__, State.__getitem__, type(m).model_with_sources])
        watch = ["model", "nll_attach_ind", "nll_attach"]
        if kind == "joint":
            watch += ["nll_attach_event_ind", "nll_attach_y_ind"]
        if m.has_sources:
            watch += ["mixing_matrix", "space_shifts"]

        basis_calls = []
        if m.has_sources:
            d_ = m.dimension

            def abstract_basis(v0, msq, **kw_):
                Q = st.sym(f"Qabs{len(basis_calls)}", (d_, d_ - 1), register=False)
                basis_calls.append((v0, msq, Q))
                for idx in np.ndindex(*Q.sym.shape):
                    T.ctx().fp_alias[Q.sym[idx].get_id()] = f"Qabs{list(idx)}"
                return Q

            object.__setattr__(m.dag["orthonormal_basis"].f, "f", abstract_basis)
            rec.stubs.append("orthonormal_basis node -> abstract function with the scale-invariance lemma proved by basis-scale-invariance tasks on the real compute_orthonormal_basis")

        def run():
            basis_calls.clear()
            s, ins = populate(m, n_ind, n_vis)
            if kind == "joint":
                n_ev = int(kw.get("nb_events", 1))
                ins.update(put_symbolic_event(s, n_ind, n_ev))
                # events strictly after the reference time: the regular branch of the Weibull likelihood
                for i in range(n_ind):
                    for e in range(n_ev):
                        T.assume(ins["event_time"].sym[i, e] - ins["tau"].sym[i, 0] > 0)
            before = {k: s[k] for k in watch}
            xi_before = s["xi"]
            type(m).compute_sufficient_statistics(s)
            after = {k: s[k] for k in watch}
            return s, ins, before, after, xi_before

        for c, res in st.explore(run, "R"):
            if isinstance(res, Exception):
                raise res
            s, ins, before, after, xi_before = res
            xi_after = st.to_terms(s["xi"])
            XB = st.to_terms(xi_before)
            mean = sum(XB.reshape(-1), T.real_val(0)) / n_ind
            # lemma instances (true of exp):  exp(a -/+ mean) = exp(a) * exp(-/+ mean)  for the re-centred variables
            em, emn = T.t_exp(mean), T.t_exp(T.mk_neg(mean))
            lem = [em * emn == 1]

            lem += T.exp_shift_lemmas(mean, em) + T.exp_shift_lemmas(T.mk_neg(mean), emn)
            T.ctx().lemmas.extend(lem)
            T.ctx().congruence = "pruned"
            rec.lemmas.append(f"{len(lem)} instances of a_j = a_i ± mean -> exp(a_j) = exp(a_i)·exp(±mean) over the exp applications met; exp(mean)·exp(−mean)=1")
            # assume-guarantee: the abstract basis is scale invariant (proved on the real function by scale_invariance_task)
            for a in range(len(basis_calls)):
                for b in range(a + 1, len(basis_calls)):
                    va, ma, Qa = basis_calls[a]
                    vb, mb, Qb = basis_calls[b]
                    VA, VB, MA, MB = st.to_terms(va), st.to_terms(vb), st.to_terms(ma), st.to_terms(mb)
                    hyp = z3.And(*[VB[k] == em * VA[k] for k in range(len(VA))], *[MB[k] == MA[k] for k in range(len(MA))])
                    T.ctx().lemmas.append(z3.Implies(hyp, z3.And(*[x == y for x, y in zip(Qa.sym.reshape(-1), Qb.sym.reshape(-1))])))
            if basis_calls:
                rec.lemmas.append(f"Q(exp(mean)·v0, G) = Q(v0, G) instantiated on {len(basis_calls)} basis evaluations")

            def rp(model):
                ev = ""
                if kind == "joint":
                    ev = "with s.auto_fork(None):\n    s['event'] = WeightedTensor(I['event_time'].double().abs() + I['tau'].double()[:, :1] + 0.5, I['event_bool'])\n"
                w = repr(watch)
                return (
                    replay_prologue(kind, kw, {k: v for k, v in ins.items() if not k.startswith("event_")}, model)
                    + "".join(f"I[{k!r}] = {tensor_literal(v, model)}\n" for k, v in ins.items() if k.startswith("event_"))
                    + ev
                    + f"watch = {w}\n"
                    + "def val(v):\n    return v.weighted_value if isinstance(v, WeightedTensor) else v\n"
                    + "before = {k: val(s[k]).clone().double() for k in watch}\n"
                    + "type(m).compute_sufficient_statistics(s)\n"
                    + "after = {k: val(s[k]).double() for k in watch}\n"
                    + "bad = [k for k in watch if not torch.allclose(before[k], after[k], rtol=1e-4, atol=1e-4)]\n"
                    + "mx = float(s['xi'].mean().abs())\n"
                    + "print('changed by re-centring:', bad, ' |mean xi| after =', mx)\n"
                    + "sys.exit(1 if (bad or mx > 1e-5) else 0)\n"
                )

            rec.prove("xi-zero-mean", sum(xi_after.reshape(-1), T.real_val(0)) == 0, replay=rp, what="re-centred log-accelerations are not zero-mean")
            # stage 1: basis / mixing matrix invariant
            first = [k for k in ("mixing_matrix", "space_shifts", "model") if k in watch]
            order = first + [k for k in watch if k not in first and k.endswith("_ind")] + [k for k in watch if k not in first and not k.endswith("_ind")]
            for k in order:
                bv, bw = value_terms(before[k])
                av, aw = value_terms(after[k])
                assert bv.shape == av.shape, (k, bv.shape, av.shape)
                proved_all = True
                for idx in np.ndindex(*bv.shape):
                    eq = av[idx] == bv[idx]
                    if bw is not None:
                        # only entries that carry weight matter; weights themselves must be identical
                        eq = z3.And(aw[idx] == bw[idx], z3.Implies(bw[idx] if z3.is_bool(bw[idx]) else bw[idx] != 0, av[idx] == bv[idx]))
                    r = rec.prove(f"{k}{list(idx)}", eq, replay=rp, timeout_ms=90000, what=f"re-centring changed {k}")
                    proved_all = proved_all and bool(r)
                if proved_all:
                    # staged: proved equalities become lemmas for the downstream obligations
                    for idx in np.ndindex(*bv.shape):
                        T.ctx().lemmas.append(av[idx] == bv[idx])
            rec.twin("ctx")
            rec.end_path(c)
        rec.sample({"model": cfg_name(kind, kw), "watch": watch, "n_ind": n_ind, "n_visits": n_vis})
        return rec.result()

    return guarded(PROP, task, body)


def tasks(tier, seed=0):
    ts = []
    for dim in (2, 3):
        for sc in range(dim):
            ts.append(("basis_task", dict(dim=dim, metric_kind="1d", strip_col=sc)))
    ts.append(("basis_task", dict(dim=2, metric_kind="0d", strip_col=0)))
    ts.append(("basis_task", dict(dim=3, metric_kind="0d", strip_col=0)))
    ts.append(("scale_invariance_task", dict(dim=2, strip_col=0)))
    ts.append(("scale_invariance_task", dict(dim=3, strip_col=0)))
    ts.append(("dag_orthogonality_task", dict(kind="logistic", kw=dict(features=["a", "b"], source_dimension=1))))
    ts.append(("dag_orthogonality_task", dict(kind="linear", kw=dict(features=["a", "b"], source_dimension=1))))
    ts.append(("gauge_task", dict(kind="logistic", kw=dict(features=["a", "b"], source_dimension=0))))
    ts.append(("gauge_task", dict(kind="logistic", kw=dict(features=["a", "b"], source_dimension=1))))
    ts.append(("gauge_task", dict(kind="linear", kw=dict(features=["a", "b"], source_dimension=0))))
    ts.append(("gauge_task", dict(kind="joint", kw=_joint_kw(0))))
    ts.append(("gauge_task", dict(kind="joint", kw=_joint_kw(0, nb_events=2))))  # competing events: every event's scale must follow the gauge
    if tier == "thorough":
        for sc in range(4):
            ts.append(("basis_task", dict(dim=4, metric_kind="1d", strip_col=sc)))
        ts.append(("basis_task", dict(dim=2, metric_kind="2d", strip_col=0)))
        ts.append(("basis_task", dict(dim=3, metric_kind="2d", strip_col=1)))
        ts.append(("dag_orthogonality_task", dict(kind="logistic", kw=dict(features=["a", "b", "c"], source_dimension=2))))
        ts.append(("dag_orthogonality_task", dict(kind="shared_speed_logistic", kw=dict(features=["a", "b"], source_dimension=1))))
        ts.append(("gauge_task", dict(kind="linear", kw=dict(features=["a", "b"], source_dimension=1))))
        ts.append(("gauge_task", dict(kind="joint", kw=_joint_kw(1))))
        ts.append(("gauge_task", dict(kind="joint", kw=_joint_kw(1, nb_events=2))))
        ts.append(("gauge_task", dict(kind="joint", kw=_joint_kw(0, nb_events=3), n_ind=2, n_vis=1)))
        ts.append(("gauge_task", dict(kind="logistic", kw=dict(features=["a", "b", "c"], source_dimension=1), n_ind=2, n_vis=1)))
    return ts
