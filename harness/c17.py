"""C17 — personalization returns one aligned, finite, non-worsening estimate per subject (the parts inside leaspy).

Real code executed: Mean/ModePosteriorAlgorithm._compute_individual_parameters_from_samples_torch on symbolic sample histories;
McmcPersonalizeAlgorithm._get_individual_parameters' retention loop (samplers / device manager stubbed, symbolic burn-in length);
ScipyMinimizeAlgorithm.obj_no_jac and _AffineScalings1D scaling/unscaling on the real State (symbolic everything); the per-subject
plumbing of ScipyMinimizeAlgorithm._compute_individual_parameters (sliced out of the current source, optimiser stubbed) for every order of ids.
"Never worse than the start point" and finiteness of the optimiser's output are scipy's (not claimed).
"""
from __future__ import annotations

import ast
import contextlib
import itertools

import numpy as np
import torch
import z3

from harness.realmodel import *  # noqa
from leaspy.algo.algo_with_samplers import AlgorithmWithSamplersMixin
from leaspy.algo.personalize import scipy_minimize as SM
from leaspy.algo.personalize.mcmc import McmcPersonalizeAlgorithm
from leaspy.algo.personalize.mean_posterior import MeanPosteriorAlgorithm
from leaspy.algo.personalize.mode_posterior import ModePosteriorAlgorithm
from leaspy.algo.personalize.scipy_minimize import ScipyMinimizeAlgorithm, _AffineScalings1D
from leaspy.io.outputs.individual_parameters import IndividualParameters
from leaspy.variables.specs import IndividualLatentVariable
from vcheck import slices
from vcheck.common import Recorder, guarded, tensor_literal

PROP = "C17"
META = dict(
    explanation="Mean / mode estimators: the mean over kept draws; for the mode, the row of individual i is draw k of individual i for all parameters jointly with "
    "loss[k,i] minimal. Retention: exactly the iterations after burn-in are kept, in order, values and losses from the same iteration. scipy objective = "
    "nll_attach + nll_regul_ind_sum at the un-scaled point; scaling and unscaling are mutually inverse. Plumbing: for every order of the ids the parameters "
    "returned for an id are those optimised on that id's own state, keys are the input ids (strings) in input order.",
    bounds="kept draws <= 3, individuals <= 2-3, parameter dims <= 2, n_iter <= 5",
    outside="scipy.optimize.minimize itself: non-worsening and finiteness of its output (compiled / numpy code outside leaspy) - not claimed",
    assumptions=["argmin as a first-minimum If-chain (ties: first draw)", "samplers, device manager, optimiser and pandas-built per-subject datasets are stubs in the plumbing checks"],
)


def kernels_task(n_kept, n_ind):
    task = f"estimators[kept={n_kept},n={n_ind}]"

    def body():
        rec = Recorder(PROP, task, [MeanPosteriorAlgorithm._compute_individual_parameters_from_samples_torch, ModePosteriorAlgorithm._compute_individual_parameters_from_samples_torch])
        st.new_context("R")
        vals = {"xi": st.sym("xi", (n_kept, n_ind, 1)), "tau": st.sym("tau", (n_kept, n_ind, 1)), "sources": st.sym("sources", (n_kept, n_ind, 2))}
        att, reg = st.sym("att", (n_kept, n_ind)), st.sym("reg", (n_kept, n_ind))

        class H:
            regularity_factor = 1.0

        def rp(model):
            return f"""
from leaspy.algo.personalize.mean_posterior import MeanPosteriorAlgorithm
from leaspy.algo.personalize.mode_posterior import ModePosteriorAlgorithm
class H: regularity_factor = 1.0
vals = {{'xi': {tensor_literal(vals['xi'], model)}, 'tau': {tensor_literal(vals['tau'], model)}, 'sources': {tensor_literal(vals['sources'], model)}}}
att = {tensor_literal(att, model)}; reg = {tensor_literal(reg, model)}
mean = MeanPosteriorAlgorithm._compute_individual_parameters_from_samples_torch(H(), vals, att, reg)
mode = ModePosteriorAlgorithm._compute_individual_parameters_from_samples_torch(H(), vals, att, reg)
bad = []
loss = att + reg
for k, v in vals.items():
    if not torch.allclose(mean[k], v.sum(0) / v.shape[0]): bad.append(('mean', k))
    for i in range(v.shape[1]):
        best = int(loss[:, i].argmin())
        if not torch.equal(mode[k][i], v[best, i]): bad.append(('mode', k, i))
print(bad); sys.exit(1 if bad else 0)
"""

        mean = MeanPosteriorAlgorithm._compute_individual_parameters_from_samples_torch(H(), vals, att, reg)
        mode = ModePosteriorAlgorithm._compute_individual_parameters_from_samples_torch(H(), vals, att, reg)
        L = att.sym + reg.sym
        for name, v in vals.items():
            M, Mo = st.to_terms(mean[name]), st.to_terms(mode[name])
            rec.obligations += 1
            if M.shape == v.sym.shape[1:] and Mo.shape == v.sym.shape[1:]:
                rec.discharged += 1
            else:
                rec.violation_from_script(f"shape[{name}]", "C17:estimator-shape", rp(_Mdl()), "estimator output is not shaped (n_individuals, dim)")
                continue
            for idx in np.ndindex(*M.shape):
                rec.prove(f"mean[{name}]{list(idx)}", M[idx] == sum((v.sym[(k,) + idx] for k in range(n_kept)), T.real_val(0)) / n_kept, replay=rp, key="C17:mean", what="mean-posterior is not the arithmetic mean of the kept draws")
            for i in range(n_ind):
                for k in range(n_kept):
                    # draw k is the (first) best one for individual i  =>  every parameter of i comes from draw k
                    best = z3.And(*[L[k, i] < L[k2, i] for k2 in range(k)], *[L[k, i] <= L[k2, i] for k2 in range(k + 1, n_kept)])
                    for j in np.ndindex(*v.sym.shape[2:]):
                        rec.prove(f"mode[{name}][ind={i},draw={k}]{list(j)}", z3.Implies(best, Mo[(i,) + j] == v.sym[(k, i) + j]), replay=rp, key="C17:mode",
                                  what="mode-posterior does not return, for every parameter jointly, the individual's lowest-loss draw")
        rec.twin("ctx")
        rec.sample({"kept_draws": n_kept, "individuals": n_ind, "parameters": {k: list(v.sym.shape) for k, v in vals.items()}})
        rec.end_path()
        return rec.result()

    return guarded(PROP, task, body)


class _Mdl:
    def eval(self, t, model_completion=True):
        s = t.sort()
        return z3.BoolVal(True) if s == z3.BoolSort() else z3.RealVal("1/2")


class _FakeState:
    """state whose reads are tagged with the iteration at which they are made"""

    def __init__(self):
        self.it = 0

    def __getitem__(self, name):
        return st.sym(f"{name}@{self.it}", (2, 1), register=False)

    def get_tensor_value(self, name):
        return st.sym(f"{name}@{self.it}", (2,), register=False)


def retention_task(n_iter):
    task = f"retention[n_iter={n_iter}]"

    def body():
        rec = Recorder(PROP, task, [McmcPersonalizeAlgorithm._get_individual_parameters, AlgorithmWithSamplersMixin._is_burn_in])
        hold = {}

        def run():
            b = st.sym("n_burn_in", (), torch.int64)
            T.assume(z3.And(b.sym[()] >= 0, b.sym[()] < n_iter))  # at least one kept draw (otherwise torch.stack of nothing: refused by the settings)
            state = _FakeState()

            class Smp:
                def __init__(s, name):
                    s.name = name

                def sample(s, st_, *, temperature_inv):
                    hold["calls"].append((s.name, st_.it))

            class Host:
                _get_individual_parameters = McmcPersonalizeAlgorithm._get_individual_parameters
                _is_burn_in = AlgorithmWithSamplersMixin._is_burn_in
                random_order_variables = False
                temperature_inv = st.SymScalar(z3.FP("temperature_inv", T.F32), torch.float32)  # annealing may still be on after burn-in
                current_iteration = 0

                def _device_manager(self, model, dataset):
                    return contextlib.nullcontext()

                def _initialize_algo(self, model, dataset):
                    return state

                def _display_progress_bar(self, *a, **k):
                    pass

                def _update_temperature(self):
                    state.it = self.current_iteration  # reads made at the next iteration are tagged by it

                def _terminate_algo(self, model, st_):
                    hold["terminated"] = True

                def _compute_individual_parameters_from_samples_torch(self, values, attachments, regularities):
                    hold["kept"] = (values, attachments, regularities)
                    return {k: torch.zeros((2, 1)) for k in values}

            h = Host()
            h.algo_parameters = {"n_iter": n_iter, "n_burn_in_iter": st.SymScalar(b.sym[()], torch.int64), "progress_bar": False}
            h.samplers = {n: Smp(n) for n in ("tau", "xi")}
            hold.update(calls=[], b=b, kept=None, terminated=False)

            class M:
                class dag:
                    sorted_variables_by_type = {IndividualLatentVariable: {"xi": None, "tau": None}}

            class D:
                indices = ["b", "a"]

            # reads inside iteration k must be tagged k: bump the tag at the start of each iteration through the sampler stub
            orig = Smp.sample

            def sample(s, st_, *, temperature_inv):
                st_.it = h.current_iteration
                orig(s, st_, temperature_inv=temperature_inv)

            Smp.sample = sample
            ip = h._get_individual_parameters(M(), D())
            return ip

        for c, res in st.explore(run, "F"):
            rec.end_path(c)
            if isinstance(res, Exception):
                raise res
            b = hold["b"].sym[()]
            values, att, reg = hold["kept"]
            n_kept = att.sym.shape[0]
            # which iterations were kept: read the tags back from the symbol names
            tags = lambda t: [int(str(x).split("@")[1].split("[")[0]) for x in t.sym[:, 0].reshape(-1)] if t.sym.ndim == 2 else [int(str(x).split("@")[1].split("[")[0]) for x in t.sym[:, 0, 0]]
            kept_att = [int(str(att.sym[k, 0]).split("@")[1].split("[")[0]) for k in range(n_kept)]
            kept_reg = [int(str(reg.sym[k, 0]).split("@")[1].split("[")[0]) for k in range(n_kept)]
            kept_vals = {name: [int(str(v.sym[k, 0, 0]).split("@")[1].split("[")[0]) for k in range(n_kept)] for name, v in values.items()}
            rec.obligations += 1
            # the kept losses / values are the state's own values of that iteration, unweighted (plain symbols, no arithmetic on them)
            raw = all(x.num_args() == 0 for t_ in [att, reg] + list(values.values()) for x in t_.sym.reshape(-1))
            same_iter = raw and all(kv == kept_att for kv in kept_vals.values()) and kept_att == kept_reg and kept_att == sorted(kept_att)
            if same_iter and hold["terminated"] and isinstance(res, IndividualParameters) and res._indices == ["b", "a"]:
                rec.discharged += 1
            else:
                rec.violation_from_script("alignment", "C17:retention-alignment", _retention_replay(n_iter), f"kept values/losses not from the same iterations in order: {kept_vals} {kept_att} {kept_reg}; ids {getattr(res, '_indices', None)}")
                continue
            # exactly the iterations k > n_burn_in are kept
            goal = z3.And(*[(z3.IntVal(k) > b) == z3.BoolVal(k in kept_att) for k in range(1, n_iter + 1)])
            rec.prove("kept == {k > n_burn_in}", goal, replay=lambda m_: _retention_replay(n_iter), key="C17:retention", what="the draws kept are not exactly those of the iterations after burn-in")
            rec.sample({"n_iter": n_iter, "kept_iterations": kept_att, "path": [d[1] for d in c.decisions]})
        return rec.result()

    return guarded(PROP, task, body)


def _retention_replay(n_iter):
    return f"""
import contextlib
from leaspy.algo.personalize.mcmc import McmcPersonalizeAlgorithm
from leaspy.algo.algo_with_samplers import AlgorithmWithSamplersMixin
from leaspy.variables.specs import IndividualLatentVariable
bad = []
for b in range(0, {n_iter}):
    class S:
        it = 0
        def __getitem__(s, n): return torch.full((2, 1), float(s.it))
        def get_tensor_value(s, n): return torch.full((2,), float(s.it))
    state = S(); kept = {{}}
    class Smp:
        def sample(s, st_, *, temperature_inv): st_.it = h.current_iteration
    class H:
        _get_individual_parameters = McmcPersonalizeAlgorithm._get_individual_parameters
        _is_burn_in = AlgorithmWithSamplersMixin._is_burn_in
        random_order_variables = False; temperature_inv = 0.5; current_iteration = 0
        def _device_manager(s, m, d): return contextlib.nullcontext()
        def _initialize_algo(s, m, d): return state
        def _display_progress_bar(s, *a, **k): pass
        def _update_temperature(s): pass
        def _terminate_algo(s, m, st_): pass
        def _compute_individual_parameters_from_samples_torch(s, values, att, reg):
            kept['v'] = [int(x) for x in values['xi'][:, 0, 0]]; kept['a'] = [int(x) for x in att[:, 0]]; kept['r'] = [int(x) for x in reg[:, 0]]
            return {{k: torch.zeros((2, 1)) for k in values}}
    h = H(); h.algo_parameters = {{'n_iter': {n_iter}, 'n_burn_in_iter': b, 'progress_bar': False}}; h.samplers = {{'xi': Smp(), 'tau': Smp()}}
    class M:
        class dag: sorted_variables_by_type = {{IndividualLatentVariable: {{'xi': None, 'tau': None}}}}
    class D: indices = ['b', 'a']
    ip = h._get_individual_parameters(M(), D())
    exp = list(range(b + 1, {n_iter} + 1))
    if kept['v'] != exp or kept['a'] != exp or kept['r'] != exp or ip._indices != ['b', 'a']: bad.append((b, kept, ip._indices))
print(bad); sys.exit(1 if bad else 0)
"""


def objective_task(kind, kw):
    """obj_no_jac on the real state == nll_attach + nll_regul_ind_sum at the un-scaled point; scaling o unscaling = id"""
    task = f"objective[{cfg_name(kind, kw)}]"

    def body():
        m = build_model(kind, **kw)
        rec = Recorder(PROP, task, [ScipyMinimizeAlgorithm.obj_no_jac, _AffineScalings1D.unscaling, _AffineScalings1D.scaling, _AffineScalings1D.from_state, SM._AffineScaling.from_latent_variable])
        st.new_context("R")
        s, ins = populate(m, 1, 2)
        if kind == "joint":
            from harness.c10 import put_symbolic_event

            ev = put_symbolic_event(s, 1)
            T.assume(ev["event_time"].sym[0, 0] - ins["tau"].sym[0, 0] > 0)
        s.auto_fork_type = None
        scal = _AffineScalings1D.from_state(s, var_type=IndividualLatentVariable)
        n = len(scal)
        x = st.sym("x", (n,))

        class H:
            regularity_factor = 1.0
            obj_no_jac = ScipyMinimizeAlgorithm.obj_no_jac

        ips = scal.unscaling(x)
        # un-scaled point: loc + scale * x, in the order of the individual variables of the DAG
        names = list(by_type(m.dag, IndividualLatentVariable))
        rec.obligations += 1
        if list(ips) == names and all(tuple(ips[k].shape) == (1,) + tuple(individual_shapes(s, 1)[k][1:]) for k in names):
            rec.discharged += 1
        else:
            rec.unreproduced.append(f"{task}: unscaling returns {[(k, tuple(v.shape)) for k, v in ips.items()]}")
        off = 0
        for k in names:
            loc = st.to_terms(m.dag[k].prior.mode.call(s)).reshape(-1)
            sd = st.to_terms(m.dag[k].prior.stddev.call(s)).reshape(-1)
            got = st.to_terms(ips[k]).reshape(-1)
            for j in range(len(got)):
                lj, sj = loc[j % len(loc)], sd[j % len(sd)]
                rec.prove(f"unscaling[{k}][{j}]", got[j] == lj + sj * x.sym[off + j], key="C17:unscaling", what="un-scaled individual parameter is not prior mode + prior std * x")
            off += len(got)
        loss = H().obj_no_jac(x, s, scal)
        loss_t = loss.term if isinstance(loss, st.SymScalar) else T.real_val(loss)
        # reference: same state values written by hand, totals read through the DAG
        s2 = s.clone(disable_auto_fork=True)
        for k in names:
            s2[k] = ips[k]
        ref = st.to_terms(s2["nll_attach"]).reshape(-1)[0] + st.to_terms(s2["nll_regul_ind_sum"]).reshape(-1)[0]
        T.ctx().congruence = "pruned"
        rec.prove("objective", loss_t == ref, key="C17:objective", timeout_ms=60000, what="scipy objective is not nll_attach + nll_regul_ind_sum at the un-scaled point")
        # scaling(unscaling(x)) == x  (positive prior stds)
        for k in names:
            for t in st.to_terms(m.dag[k].prior.stddev.call(s)).reshape(-1):
                T.assume(t > 0)
        import leaspy.algo.personalize.scipy_minimize as smod

        back = torch.cat([(scal.stack({k: v[0] for k, v in ips.items()})[scal.slices[k]].float() - sc.loc) / sc.scale for k, sc in scal.scalings.items()])
        B = st.to_terms(back)
        for j in range(n):
            rec.prove(f"scaling∘unscaling[{j}]", B[j] == x.sym[j], key="C17:scaling-inverse", timeout_ms=60000, what="scaling and unscaling are not mutually inverse")
        rec.twin("ctx")
        rec.sample({"model": cfg_name(kind, kw), "point_dim": n})
        rec.end_path()
        return rec.result()

    return guarded(PROP, task, body)


def plumbing_task(n_ids, prop=PROP):
    """per-subject plumbing of ScipyMinimizeAlgorithm._compute_individual_parameters, sliced after the pandas prologue"""
    task = f"scipy-plumbing[ids={n_ids}]"

    def body():
        fn = ScipyMinimizeAlgorithm._compute_individual_parameters
        rec = Recorder(prop, task, [fn])
        node = slices.function_ast(fn)
        start = None
        for k, stmt in enumerate(node.body):
            if isinstance(stmt, ast.Assign) and slices.assigns_name(stmt, "datasets"):
                start = k
                break
        if start is None:
            raise slices.SliceError("assignment of `datasets` not found in ScipyMinimizeAlgorithm._compute_individual_parameters")
        body_src = "\n".join(ast.unparse(s_) for s_ in node.body[start:])
        src = "def sliced(self, model, dataset, data):\n" + "\n".join("    " + ln for ln in body_src.splitlines()) + "\n"
        rec.stubs += ["pandas prologue (dataset.to_pandas / Data.from_dataframe) replaced by a stand-in `data` whose individuals are sorted by id, as the real one",
                      "Dataset(data[[id]]) -> token", "joblib.Parallel -> sequential", "the optimiser (_get_individual_parameters_patient_master) -> returns the token of the state it was given"]
        base_ids = ["S1", "S10", "S2", "S20"][:n_ids]
        m = build_model("logistic", features=["a", "b"], source_dimension=0)
        st.new_context("R")
        put_symbolic_parameters(m.state)
        put_symbolic_population(m.state)
        n_paths = 0
        for perm in itertools.permutations(base_ids):
            ids = list(perm)
            tokens = {i: float(base_ids.index(i) + 1) for i in ids}

            class DataStub:
                individuals = {i: None for i in sorted(ids)}

                def __getitem__(self, key):
                    return ("subset", key[0])

            class DatasetStub:
                def __init__(self, sub, no_warning=True):
                    self.id = sub[1]
                    self.n_individuals = 1

            class ModelStub:
                state = m.state
                name = "logistic"
                dag = m.dag

                def put_data_variables(self, state, ds):
                    state.tag = tokens[ds.id]

                def put_individual_parameters(self, state, ds):
                    state.tag2 = tokens[ds.id]

            class DS:
                indices = ids
                n_individuals = len(ids)

            class Host:
                algo_parameters = {"progress_bar": False, "use_jacobian": False, "n_jobs": 1}

                def _display_progress_bar(self, *a, **k):
                    pass

                def is_jacobian_implemented(self, model):
                    return False

                def _get_individual_parameters_patient_master(self, state, *, scaling, progress, with_jac, patient_id):
                    return {"xi": state.tag, "tau": state.tag2, "patient_id_seen": float(tokens[patient_id])}

            g = dict(vars(SM))
            g.update(Dataset=DatasetStub, Parallel=lambda n_jobs=None: (lambda gen: list(gen)), delayed=lambda f: (lambda *a, **k: f(*a, **k)))
            exec(compile(src, "<slice of scipy_minimize._compute_individual_parameters>", "exec"), g)
            before = dict(m.state._values)
            ip = g["sliced"](Host(), ModelStub(), DS(), DataStub())
            n_paths += 1
            rec.obligations += 1
            ok = ip._indices == [str(i) for i in ids] and all(ip[str(i)]["xi"] == tokens[i] and ip[str(i)]["tau"] == tokens[i] and ip[str(i)]["patient_id_seen"] == tokens[i] for i in ids)
            ok = ok and all(m.state._values[k] is before[k] for k in before) and not hasattr(m.state, "tag")
            if ok:
                rec.discharged += 1
            elif len(rec.violations) < 2:
                rec.violation_from_script(f"order{ids}", f"{prop}:scipy-plumbing", _plumbing_replay(ids), what=f"ids {ids}: result keys {ip._indices}, values {[ip[str(i)]['xi'] for i in ids]} expected {[tokens[i] for i in ids]} (or model.state touched)")
        rec.paths = n_paths
        rec.sample({"ids": base_ids, "orders": n_paths})
        return rec.result()

    return guarded(prop, task, body)


def _plumbing_replay(ids):
    return f"""
# public route: personalise simulated subjects whose ids are in the order {ids!r}; every subject must get its own tau back
import numpy as np, pandas as pd
from leaspy.models import LogisticModel
from leaspy.io.data import Data
from leaspy.algo import AlgorithmSettings
m = LogisticModel('logistic', features=['a'], obs_models='gaussian-scalar')
m.load_parameters({{'log_g_mean': [0.5], 'log_v0_mean': [-3.0], 'tau_mean': [70.0], 'tau_std': [8.0], 'xi_std': [0.5], 'noise_std': [0.01]}}); m._is_initialized = True
ids = {ids!r}; taus = {{i: 60.0 + 9.0 * k for k, i in enumerate(ids)}}
rows = []
for i in ids:
    for t in np.linspace(taus[i] - 8, taus[i] + 8, 7):
        rows.append((i, t, float(1 / (1 + np.exp(0.5) * np.exp(-(1 + np.exp(0.5)) ** 2 / np.exp(0.5) * np.exp(-3.0) * (t - taus[i]))))))
df = pd.DataFrame(rows, columns=['ID', 'TIME', 'a'])
ip = m.personalize(Data.from_dataframe(df), 'scipy_minimize', seed=0, progress_bar=False, use_jacobian=False)
got = {{i: ip[i]['tau'] if not isinstance(ip[i]['tau'], list) else ip[i]['tau'][0] for i in ids}}
bad = [(i, got[i], taus[i]) for i in ids if abs(got[i] - taus[i]) > 3.0]
print(got, bad); sys.exit(1 if bad else 0)
"""


def tasks(tier, seed=0):
    ts = [("kernels_task", dict(n_kept=3, n_ind=2)), ("retention_task", dict(n_iter=4)), ("plumbing_task", dict(n_ids=3)),
          ("objective_task", dict(kind="logistic", kw=dict(features=["a", "b"], source_dimension=1))),
          ("objective_task", dict(kind="linear", kw=dict(features=["a", "b"], source_dimension=0)))]
    if tier == "thorough":
        ts += [("kernels_task", dict(n_kept=4, n_ind=2)), ("kernels_task", dict(n_kept=2, n_ind=3)), ("retention_task", dict(n_iter=6)), ("plumbing_task", dict(n_ids=4)),
               ("objective_task", dict(kind="joint", kw=dict(features=["a"], source_dimension=0, nb_events=1)))]
    return ts
