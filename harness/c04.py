"""C04 — the maximization step is the closed-form maximizer of the sufficient statistics.

Real code executed on the real State/DAG of each model kind: McmcSaemCompatibleModel.update_parameters,
compute_sufficient_statistics (shapes / weights of the statistics, and the burn-in residual form), ModelParameter.compute_update,
for_pop_mean / for_ind_mean / for_ind_std rules, compute_individual_parameter_std_from_sufficient_statistics,
compute_std_from_variance, FullGaussianObservationModel.scalar_/diagonal_noise_std_update.
"""
from __future__ import annotations

import re

import numpy as np
import torch
import z3

from harness.realmodel import *  # noqa
from leaspy.exceptions import LeaspyConvergenceError
from leaspy.models.mcmc_saem_compatible import McmcSaemCompatibleModel
from leaspy.models.obs_models import FullGaussianObservationModel
from leaspy.models.utilities import compute_std_from_variance
from leaspy.variables.specs import ModelParameter
from leaspy.variables.utilities import compute_individual_parameter_std_from_sufficient_statistics
from vcheck.common import Recorder, guarded, tensor_literal, model_value

PROP = "C04"
META = dict(
    explanation="update_parameters is executed on the real State of each model kind with symbolic pre-step parameters, symbolic sufficient "
    "statistics (arbitrary values of the right shapes/weights, as after stochastic averaging), symbolic data and mask; every post-step "
    "parameter is proved equal to the documented closed form written from the statistics and the PRE-step values only; the noise level is "
    "additionally proved to be the RMS residual over observed entries when the statistics are those of the current state.",
    bounds="2 individuals (3 thorough), 2 visits, 2-3 features, 0-2 sources; burn-in and after; scalar and diagonal noise; batched-update obligation also on the mixture model (2 clusters, 3 thorough): every parameter after the real update_parameters == its real rule on an untouched clone of the pre-step state",
    outside="numerical conditioning of E[x^2]-2muE[x]+mu^2 in floats; ordinal models (not shipped)",
    assumptions=["floats as reals", "sqrt abstracted with sqrt(v)>=0, sqrt(v)^2=v", "model_x_model is 0 at entries of visits without any observation (guaranteed by the visit-level weights of `model`)",
                 "LeaspyConvergenceError paths are accepted iff the documented variance is < tol on that path"],
)

TOL_NOISE = FullGaussianObservationModel.tol_noise_variance


def _fresh_like(name, v, mask_terms=None):
    """fresh symbolic statistic with the shape (and the weights) of the real one"""
    if isinstance(v, WeightedTensor):
        val = st.sym("S_" + name, tuple(v.shape))
        return WeightedTensor(val, v.weight)
    return st.sym("S_" + name, tuple(v.shape))


def compared_terms(cond):
    """terms compared against a numeral threshold inside a decision condition `(variance < tol).any()`"""
    out, stack = [], [cond]
    while stack:
        x = stack.pop()
        k = x.decl().kind()
        if k in (z3.Z3_OP_LT, z3.Z3_OP_LE, z3.Z3_OP_GT, z3.Z3_OP_GE):
            a, b = x.arg(0), x.arg(1)
            if T.is_num(b) and not T.is_num(a):
                out.append(a)
            elif T.is_num(a) and not T.is_num(b):
                out.append(b)
        else:
            stack.extend(x.children())
    return out


def _vt(x):
    return st.to_terms(x.value if isinstance(x, WeightedTensor) else x)


def expected_updates(m, s_pre, S, ins, n_ind, burn_in):
    """documented closed forms, from the statistics S and PRE-step values only -> {param: ('value'|'square', array)}"""
    exp = {}
    dag = m.dag
    mask = ins["mask"].sym
    d = m.dimension
    for name, var in by_type(dag, ModelParameter).items():
        if name == "noise_std":
            yv = ins["y"].sym
            Sym_yxm = _vt(S["y_x_model"])
            Sym_mxm = _vt(S["model_x_model"])
            zero = T.real_val(0)

            def tot(feat=None):
                num, cnt = zero, T.real_val(0)
                for i, j, k in np.ndindex(*mask.shape):
                    if feat is not None and k != feat:
                        continue
                    obs = mask[i, j, k]
                    num = num + z3.If(obs, yv[i, j, k] * yv[i, j, k] - 2 * Sym_yxm[i, j, k] + Sym_mxm[i, j, k], zero)
                    cnt = cnt + z3.If(obs, T.real_val(1), T.real_val(0))
                return num / cnt

            if tuple(var.shape) == (1,):
                exp[name] = ("square", np.array([tot()], dtype=object))
            else:
                exp[name] = ("square", np.array([tot(k) for k in range(d)], dtype=object))
            continue
        if name.endswith("_mean"):
            v = name[: -len("_mean")]
            Sv = _vt(S[v])
            from leaspy.variables.specs import IndividualLatentVariable as ILV

            if isinstance(dag[v], ILV):
                # mean over individuals
                n = Sv.shape[0]
                e = np.empty(Sv.shape[1:], dtype=object)
                for idx in np.ndindex(*Sv.shape[1:]):
                    e[idx] = sum((Sv[(i,) + idx] for i in range(n)), T.real_val(0)) / n
                exp[name] = ("value", e.reshape(var.shape))
            else:
                exp[name] = ("value", Sv.reshape(var.shape))
            continue
        if name.endswith("_std"):
            v = name[: -len("_std")]
            Sv = _vt(S[v])
            n = Sv.shape[0]
            e = np.empty(Sv.shape[1:], dtype=object)
            if burn_in:
                for idx in np.ndindex(*Sv.shape[1:]):
                    mu = sum((Sv[(i,) + idx] for i in range(n)), T.real_val(0)) / n
                    e[idx] = sum(((Sv[(i,) + idx] - mu) * (Sv[(i,) + idx] - mu) for i in range(n)), T.real_val(0)) / (n - 1)
            else:
                S2 = _vt(S[v + "_sqr"])
                old = st.to_terms(s_pre[v + "_mean"])
                old = np.broadcast_to(old, Sv.shape[1:])
                for idx in np.ndindex(*Sv.shape[1:]):
                    m1 = sum((Sv[(i,) + idx] for i in range(n)), T.real_val(0)) / n
                    m2 = sum((S2[(i,) + idx] for i in range(n)), T.real_val(0)) / n
                    e[idx] = m2 - 2 * old[idx] * m1 + old[idx] * old[idx]
            exp[name] = ("square", e.reshape(var.shape))
            continue
        raise st.Unsupported(f"no documented rule known to the harness for parameter {name}")
    return exp


def mstep_task(kind, kw, burn_in, n_ind=2, n_vis=2):
    task = f"mstep[{cfg_name(kind, kw)},burn_in={burn_in},n={n_ind},v={n_vis}]"

    def body():
        m = build_model(kind, **kw)
        rec = Recorder(
            PROP, task,
            [McmcSaemCompatibleModel.update_parameters.__func__, McmcSaemCompatibleModel.compute_sufficient_statistics.__func__, ModelParameter.compute_update,
             compute_individual_parameter_std_from_sufficient_statistics, compute_std_from_variance,
             FullGaussianObservationModel.scalar_noise_std_update.__func__, FullGaussianObservationModel.diagonal_noise_std_update.__func__, ModelParameter.for_ind_std.__func__],
        )
        hold = {}

        def run():
            s, ins = populate(m, n_ind, n_vis)
            # at least one observation per feature (otherwise the per-feature noise is 0/0: excluded by the data readers)
            mk = ins["mask"].sym
            for k in range(m.dimension):
                T.assume(z3.Or(*[mk[i, j, k] for i in range(n_ind) for j in range(n_vis)]))
            pre = {p: s[p] for p in by_type(m.dag, ModelParameter)}
            pre.update({h: s[h] for h in m.hyperparameters_names})
            # real statistics (shapes & weights); the base-class method is used so that no re-centring moves the pre-state
            real = McmcSaemCompatibleModel.compute_sufficient_statistics.__func__(type(m), s)
            S = {k: _fresh_like(k, v) for k, v in real.items()}
            # invariant of real statistics: model^2 vanishes on visits without observation
            mxm = _vt(S["model_x_model"])
            for i in range(n_ind):
                for j in range(n_vis):
                    vis = z3.Or(*[mk[i, j, k] for k in range(m.dimension)])
                    for k in range(m.dimension):
                        T.assume(z3.Implies(z3.Not(vis), mxm[i, j, k] == 0))
            hold.update(s=s, ins=ins, pre=pre, S=S, real=real)
            type(m).update_parameters(s, S, burn_in=burn_in)
            post = {p: s[p] for p in by_type(m.dag, ModelParameter)}
            return post

        for c, res in st.explore(run, "R"):
            T.ctx().congruence = "pruned"
            s, ins, pre, S = hold["s"], hold["ins"], hold["pre"], hold["S"]
            exp = expected_updates(m, pre, S, ins, n_ind, burn_in)
            sin = {("S_" + k): (v.value if isinstance(v, WeightedTensor) else v) for k, v in S.items()}

            def make_rp(pname, mode, earr):
                def rp(model, pname=pname, mode=mode, earr=earr):
                    evals = [model_value(model, e) for e in earr.reshape(-1)]
                    src = replay_prologue(kind, kw, ins, model)
                    src += "S = {}\n"
                    for k, v in S.items():
                        lit = tensor_literal(v.value if isinstance(v, WeightedTensor) else v, model)
                        if isinstance(v, WeightedTensor):
                            src += f"S[{k!r}] = WeightedTensor({lit}, s['y'].weight)\n"
                        else:
                            src += f"S[{k!r}] = {lit}\n"
                    src += f"expected = torch.tensor({evals!r}, dtype=torch.float64)\n"
                    src += "try:\n    type(m).update_parameters(s, S, burn_in=%r)\n" % burn_in
                    src += "except Exception as e:\n    print('raised', type(e).__name__, str(e)[:80]); got = None\nelse:\n"
                    src += f"    got = s[{pname!r}].double().reshape(-1)\n"
                    src += "    got = got ** 2\n" if mode == "square" else ""
                    src += "print('parameter %s: got (squared if std)', got, 'documented', expected)\n" % pname
                    src += "if got is None:\n    sys.exit(1 if bool((expected > 2e-5).all()) else 0)\n"
                    src += "sys.exit(0 if torch.allclose(got, expected, rtol=1e-3, atol=1e-5) else 1)\n"
                    return src

                return rp

            if isinstance(res, Exception):
                if not isinstance(res, LeaspyConvergenceError):
                    raise res
                mt = re.search(r"parameter '(\w+)' collapsed", str(res))
                pname = mt.group(1) if mt else None
                mode, earr = exp[pname]
                tol = TOL_NOISE if pname == "noise_std" else 1e-5
                # the refusal is legitimate iff the documented variance is below the tolerance on this path
                goal = z3.Or(*[e < T.real_val(tol) for e in earr.reshape(-1)])
                big = pname == "noise_std" and earr.size == 1 and ins["mask"].sym.size > 8  # 2^12 mask cases in one nonlinear query: best effort
                rec.prove(f"refusal[{pname}]", goal, replay=make_rp(pname, mode, earr), required=not big, timeout_ms=120000 if big else 30000, key=f"C04:{pname}:{'scalar' if earr.size == 1 else 'diag'}:refusal",
                          what=f"convergence error raised although the documented variance of {pname} is >= tol")
                rec.end_path(c)
                continue
            post = res
            for pname, (mode, earr) in exp.items():
                got = st.to_terms(post[pname])
                if got.size == earr.size and got.shape != earr.shape:
                    rec.notes.append(f"{pname}: update returns shape {got.shape} for declared shape {earr.shape} (same number of entries; compared flat)")
                    got = got.reshape(earr.shape)
                assert got.shape == earr.shape, (pname, got.shape, earr.shape)
                for idx in np.ndindex(*got.shape):
                    if mode == "value":
                        goal = got[idx] == earr[idx]
                    else:
                        goal = z3.And(got[idx] >= 0, got[idx] * got[idx] == earr[idx])
                    key = f"C04:{pname}:{'scalar' if (pname == 'noise_std' and earr.size == 1) else 'rule'}"
                    big = pname == "noise_std" and earr.size == 1 and ins["mask"].sym.size > 8
                    rec.prove(f"{pname}{list(idx)}", goal, replay=make_rp(pname, mode, earr), key=key, required=not big, timeout_ms=120000 if big else 30000, what=f"{pname} is not the documented closed-form update")
            rec.twin("path")
            rec.end_path(c)
        rec.sample({"model": cfg_name(kind, kw), "burn_in": burn_in, "parameters": list(by_type(m.dag, ModelParameter)), "statistics": "fresh symbols with the real shapes/weights"})
        return rec.result()

    return guarded(PROP, task, body)


def residual_task(kind, kw, n_ind=2, n_vis=2):
    """with the statistics of the current state, noise^2 is the mean squared residual over observed entries"""
    task = f"noise-residual[{cfg_name(kind, kw)},n={n_ind},v={n_vis}]"

    def body():
        m = build_model(kind, **kw)
        rec = Recorder(PROP, task, [FullGaussianObservationModel.scalar_noise_std_update.__func__, FullGaussianObservationModel.diagonal_noise_std_update.__func__,
                                    FullGaussianObservationModel.noise_std_suff_stats.__func__, McmcSaemCompatibleModel.compute_sufficient_statistics.__func__])
        hold = {}
        # assume-guarantee: the trajectory node is abstracted by arbitrary values that vanish on visits without observation
        # (that `model` is exactly that is what C09's formula obligations prove); the noise rule is then pure arithmetic
        d_ = m.dimension

        def abstract_model(**kw):
            rt = kw["rt"]
            vis = st.to_terms(rt.weight)
            M = st.sym("M", (n_ind, n_vis, d_))
            out = np.empty((n_ind, n_vis, d_), dtype=object)
            for i, j, k in np.ndindex(n_ind, n_vis, d_):
                out[i, j, k] = T.mk_ite(vis[i, j], M.sym[i, j, k], T.real_val(0))
            return st.mk(out, torch.float32)

        object.__setattr__(m.dag["model"], "f", abstract_model)
        rec.stubs.append("`model` node -> arbitrary symbolic values, 0 on visits without observation (C09 proves the real node has this form)")

        def run():
            s, ins = populate(m, n_ind, n_vis)
            mk = ins["mask"].sym
            for k in range(m.dimension):
                T.assume(z3.Or(*[mk[i, j, k] for i in range(n_ind) for j in range(n_vis)]))
            model = s["model"]
            S = McmcSaemCompatibleModel.compute_sufficient_statistics.__func__(type(m), s)
            hold.update(s=s, ins=ins, model=model)
            var = m.dag["noise_std"]
            return var.compute_update(state=s, suff_stats=S, burn_in=True)

        for c, res in st.explore(run, "R"):
            T.ctx().congruence = "pruned"
            s, ins, model = hold["s"], hold["ins"], hold["model"]
            mk, yv, mv = ins["mask"].sym, ins["y"].sym, st.to_terms(model)
            d = m.dimension

            def resid(feat=None):
                num, cnt = T.real_val(0), T.real_val(0)
                for i, j, k in np.ndindex(*mk.shape):
                    if feat is not None and k != feat:
                        continue
                    r = yv[i, j, k] - mv[i, j, k]
                    num = num + z3.If(mk[i, j, k], r * r, T.real_val(0))
                    cnt = cnt + z3.If(mk[i, j, k], T.real_val(1), T.real_val(0))
                PAIRS.append((num, cnt))
                return num / cnt

            PAIRS = []
            scalar = tuple(m.dag["noise_std"].shape) == (1,)
            earr = [resid()] if scalar else [resid(k) for k in range(d)]

            def rp(model_):
                return replay_prologue(kind, kw, {k_: v_ for k_, v_ in ins.items() if k_ != "M"}, model_) + (
                    "S = type(m).__mro__[-1] and None\n"
                    "from leaspy.models.mcmc_saem_compatible import McmcSaemCompatibleModel\n"
                    "S = McmcSaemCompatibleModel.compute_sufficient_statistics.__func__(type(m), s)\n"
                    "try:\n    new = m.dag['noise_std'].compute_update(state=s, suff_stats=S, burn_in=True).double()\n"
                    "except Exception as e:\n    print('raised', type(e).__name__); new = None\n"
                    "y, w = s['y'].value.double(), s['y'].weight; mod = s['model'].double()\n"
                    "r2 = torch.where(w, (y - mod) ** 2, torch.zeros_like(mod))\n"
                    + ("ref = (r2.sum() / w.sum()).reshape(1)\n" if scalar else "ref = r2.sum(dim=(0, 1)) / w.sum(dim=(0, 1))\n")
                    + "print('noise_std^2 from the update rule:', None if new is None else new ** 2, ' mean squared residual over observed entries:', ref)\n"
                    "if new is None:\n    sys.exit(1 if bool((ref > 2e-5).all()) else 0)\n"
                    "sys.exit(0 if torch.allclose(new ** 2, ref, rtol=1e-3, atol=1e-6) else 1)\n"
                )

            key = f"C04:noise_std:{'scalar' if scalar else 'diag'}:residual"
            if isinstance(res, Exception):
                if not isinstance(res, LeaspyConvergenceError):
                    raise res
                # the refused quantity is the documented variance: identity  var_k * cnt_k == num_k  for the terms the rule compared with tol
                vars_ = list(reversed(compared_terms(c.decisions[-1][0])))
                rec.obligations += 1
                if len(vars_) == len(PAIRS):
                    rec.discharged += 1
                else:
                    rec.inconclusive.append(f"{task}: could not match the refused variance terms ({len(vars_)} vs {len(PAIRS)})")
                for k_, (v_, (n_, c_)) in enumerate(zip(vars_, PAIRS)):
                    rec.prove(f"refusal-identity[{k_}]", z3.And(c_ > 0, v_ * c_ == n_), replay=rp, key=key, timeout_ms=60000, what="the variance tested against tol is not the mean squared residual over observed entries")
                rec.prove("refusal", z3.Or(*[v_ < T.real_val(TOL_NOISE) for v_ in vars_]), replay=rp, key=key, timeout_ms=60000, what="noise update refused although the mean squared residual over observed entries is >= tol")
            else:
                got = st.to_terms(res).reshape(-1)
                for k, e in enumerate(earr):
                    rec.prove(f"noise[{k}]", z3.And(got[k] >= 0, got[k] * got[k] == e), replay=rp, key=key, timeout_ms=60000,
                              what="noise level is not the RMS residual over observed entries only")
            rec.end_path(c)
        rec.sample({"model": cfg_name(kind, kw), "check": "noise^2 == sum_obs (y-model)^2 / n_obs", "mask": "symbolic (covers partially observed visits)"})
        return rec.result()

    return guarded(PROP, task, body)


def tasks(tier, seed=0):
    ts = []
    cfgs = [
        ("logistic", dict(features=["a", "b"], source_dimension=1, obs_models="gaussian-diagonal")),
        ("logistic", dict(features=["a", "b"], source_dimension=0, obs_models="gaussian-scalar")),
        ("linear", dict(features=["a", "b"], source_dimension=1, obs_models="gaussian-scalar")),
    ]
    if tier == "thorough":
        cfgs += [
            ("logistic", dict(features=["a", "b"], source_dimension=1, obs_models="gaussian-scalar")),
            ("linear", dict(features=["a", "b"], source_dimension=0, obs_models="gaussian-diagonal")),
            ("shared_speed_logistic", dict(features=["a", "b"], source_dimension=1, obs_models="gaussian-diagonal")),
            ("shared_speed_logistic", dict(features=["a", "b"], source_dimension=0, obs_models="gaussian-scalar")),
            ("logistic", dict(features=["a", "b", "c"], source_dimension=2, obs_models="gaussian-diagonal")),
        ]
    for kind, kw in cfgs:
        for b in (True, False):
            ts.append(("mstep_task", dict(kind=kind, kw=kw, burn_in=b)))
        ts.append(("residual_task", dict(kind=kind, kw=kw)))
    if tier == "thorough":
        ts.append(("mstep_task", dict(kind="logistic", kw=cfgs[0][1], burn_in=True, n_ind=3, n_vis=2)))
        ts.append(("mstep_task", dict(kind="logistic", kw=cfgs[1][1], burn_in=False, n_ind=3, n_vis=2)))
    return ts


def mixture_probs_task(n_ind, n_clusters):
    """mixture probabilities = mean cluster responsibilities, summing to one (real compute_probs_from_state on symbolic per-cluster regularities)"""
    task = f"mixture-probs[n={n_ind},clusters={n_clusters}]"

    def body():
        from leaspy.models.utilities import compute_probs_from_state

        rec = Recorder(PROP, task, [compute_probs_from_state])
        st.new_context("R")
        r = st.sym("nll_regul", (n_ind, n_clusters))
        # the clamp at -100 is inactive in the modelled range (documented numerical guard): assume moderate values
        for x in r.sym.reshape(-1):
            T.assume(z3.And(x > -50, x < 50))
        probs = compute_probs_from_state({"nll_regul_ind_sum_ind": WeightedTensor(r)})
        P = st.to_terms(probs)

        def rp(model):
            return f"""
from leaspy.models.utilities import compute_probs_from_state
from leaspy.utils.weighted_tensor import WeightedTensor
r = {tensor_literal(r, model)}
p = compute_probs_from_state({{'nll_regul_ind_sum_ind': WeightedTensor(r)}})
ref = torch.softmax(-r, dim=1).mean(dim=0)
print(p, ref); sys.exit(0 if (torch.allclose(p, ref, atol=1e-6) and abs(float(p.sum()) - 1) < 1e-5) else 1)
"""

        rec.obligations += 1
        if P.shape == (n_clusters,):
            rec.discharged += 1
        else:
            rec.violation_from_script("shape", "C04:mixture-probs-shape", rp(_Zero()), f"probs shape {P.shape}")
            return rec.result()
        E = [[T.t_exp(T.mk_neg(r.sym[i, c])) for c in range(n_clusters)] for i in range(n_ind)]
        for c in range(n_clusters):
            exp = sum((E[i][c] / sum(E[i], T.real_val(0)) for i in range(n_ind)), T.real_val(0)) / n_ind
            rec.prove(f"pi[{c}]", P[c] == exp, replay=rp, key="C04:mixture-probs", timeout_ms=60000, what="mixture probability is not the mean cluster responsibility")
        rec.prove("sum-to-one", sum(P, T.real_val(0)) == 1, replay=rp, key="C04:mixture-probs", timeout_ms=60000, what="mixture probabilities do not sum to one")
        rec.sample({"individuals": n_ind, "clusters": n_clusters})
        rec.end_path()
        return rec.result()

    return guarded(PROP, task, body)



def batched_task(kind, kw, burn_in, n_ind=2, n_vis=2):
    """'All parameters are updated together from the pre-step state, never one from another's new value': the real
    update_parameters on a symbolic state vs every parameter's real rule evaluated on an untouched clone of the pre-step
    state (covers the mixture model, whose rules read state-derived responsibilities in every phase)."""
    task = f"batched[{cfg_name(kind, kw)},burn_in={burn_in},n={n_ind},v={n_vis}]"

    def body():
        m = build_model(kind, **kw)
        rec = Recorder(PROP, task, [McmcSaemCompatibleModel.update_parameters.__func__, ModelParameter.compute_update])
        hold = {}

        def run():
            s, ins = populate(m, n_ind, n_vis)
            mk = ins["mask"].sym
            for k in range(m.dimension):
                T.assume(z3.Or(*[mk[i, j, k] for i in range(n_ind) for j in range(n_vis)]))
            real = McmcSaemCompatibleModel.compute_sufficient_statistics.__func__(type(m), s)
            S = {k: _fresh_like(k, v) for k, v in real.items()}
            clone = s.clone(disable_auto_fork=True)
            hold.update(ins=ins, S=S, phase="rules")
            # every rule on the untouched clone (a refusal here is a legitimate refusal of the step: see the mstep tasks)
            expd = {name: var.compute_update(state=clone, suff_stats=S, burn_in=burn_in) for name, var in by_type(m.dag, ModelParameter).items()}
            hold.update(phase="update")
            type(m).update_parameters(s, S, burn_in=burn_in)
            return expd, {p_: s[p_] for p_ in expd}

        def rp(model):
            ins, S = hold["ins"], hold["S"]
            src = replay_prologue(kind, kw, ins, model)
            src += "S = {}\n"
            for k, v in S.items():
                lit = tensor_literal(v.value if isinstance(v, WeightedTensor) else v, model)
                src += f"S[{k!r}] = WeightedTensor({lit}, s['y'].weight)\n" if isinstance(v, WeightedTensor) else f"S[{k!r}] = {lit}\n"
            src += f"""
from leaspy.variables.specs import ModelParameter
from leaspy.exceptions import LeaspyConvergenceError
BURN = {burn_in!r}
for k in list(m.dag): s[k]
clone = s.clone(disable_auto_fork=True)
try:
    expd = {{n: v.compute_update(state=clone, suff_stats=S, burn_in=BURN) for n, v in m.dag.sorted_variables_by_type[ModelParameter].items()}}
except LeaspyConvergenceError as e:
    print('the step is refused at these values:', str(e)[:80]); sys.exit(0)
type(m).update_parameters(s, S, burn_in=BURN)
bad = [n for n, e in expd.items() if not torch.allclose(s[n].double().reshape(-1), e.double().reshape(-1), rtol=1e-6, atol=1e-9, equal_nan=True)]
for n in bad: print('parameter', n, 'after the step:', s[n], 'its rule on the pre-step state:', expd[n])
sys.exit(1 if bad else 0)
"""
            return src

        n_ref = 0
        for c, res in st.explore(run, "R"):
            T.ctx().congruence = "pruned"
            rec.end_path(c)
            if isinstance(res, Exception):
                if not isinstance(res, LeaspyConvergenceError):
                    raise res
                if hold.get("phase") == "rules":
                    n_ref += 1
                    continue
                # the rules accept the pre-step state but the step itself refuses
                rec.prove(f"refusal-only-in-step#{rec.paths}", z3.BoolVal(False), replay=rp, key="C04:batched:refusal", what=f"update_parameters refuses ({str(res)[:80]}) although every rule accepts the pre-step state")
                continue
            expd, post = res
            for pname in expd:
                e, g = st.to_terms(expd[pname]).reshape(-1), st.to_terms(post[pname]).reshape(-1)
                rec.obligations += 1
                if len(e) != len(g):
                    rec.violation_from_script(f"{pname}:size", "C04:batched", rp(_Zero()), f"{pname}: {len(g)} entries stored for {len(e)} computed")
                    continue
                rec.discharged += 1
                for i, (a, b) in enumerate(zip(g, e)):
                    rec.prove(f"{pname}[{i}]", a == b, replay=rp, key="C04:batched", timeout_ms=60000,
                              what=f"{pname} after the step is not its rule evaluated on the pre-step state (updated from another parameter's new value)")
            if rec.paths == 1:
                rec.twin("path")
        rec.notes.append(f"{n_ref} paths end in a refusal by a rule (collapsed dispersion): not a step")
        rec.sample({"model": cfg_name(kind, kw), "burn_in": burn_in, "parameters": list(by_type(m.dag, ModelParameter))})
        return rec.result()

    return guarded(PROP, task, body)


class _Zero:
    def eval(self, t, model_completion=True):
        return z3.RealVal(0) if t.sort() == z3.RealSort() else z3.BoolVal(True)


_tasks_c04 = tasks


MIX = ("mixture_logistic", dict(features=["a", "b"], source_dimension=1, n_clusters=2, obs_models="gaussian-diagonal"))


def tasks(tier, seed=0):
    extra = [("batched_task", dict(kind=MIX[0], kw=MIX[1], burn_in=b)) for b in (True, False)]
    extra += [("batched_task", dict(kind="logistic", kw=dict(features=["a", "b"], source_dimension=1, obs_models="gaussian-diagonal"), burn_in=False))]
    if tier == "thorough":
        extra += [("batched_task", dict(kind=MIX[0], kw=dict(MIX[1], source_dimension=0, obs_models="gaussian-scalar"), burn_in=b)) for b in (True, False)]
        extra += [("batched_task", dict(kind=MIX[0], kw=dict(MIX[1], n_clusters=3), burn_in=True))]
    return extra + _tasks_c04(tier, seed) + [("mixture_probs_task", dict(n_ind=2, n_clusters=2))] + ([("mixture_probs_task", dict(n_ind=3, n_clusters=2)), ("mixture_probs_task", dict(n_ind=2, n_clusters=3))] if tier == "thorough" else [])
