"""Shared helper: build a *real* leaspy model (its real variable specs, DAG and State) and populate the state with
symbolic (or concrete) parameters, latent variables and data.  Everything that computes is leaspy's own code; this
module only constructs inputs."""
from __future__ import annotations

import warnings

warnings.filterwarnings("ignore")

import numpy as np
import torch
import z3

import leaspy.models  # noqa: F401  (must be imported before leaspy.variables: circular import otherwise)
from leaspy.models.factory import model_factory
from leaspy.utils.weighted_tensor import WeightedTensor
from leaspy.variables.specs import (
    DataVariable,
    Hyperparameter,
    IndividualLatentVariable,
    LinkedVariable,
    ModelParameter,
    PopulationLatentVariable,
)
from leaspy.variables.state import State, StateForkType

import symtorch as st
from symtorch import terms as T

# configurations (kind, kwargs) used across harnesses ---------------------------------------------------------------
def model_configs(tier="quick"):
    feats2 = ["a", "b"]
    feats3 = ["a", "b", "c"]
    cfgs = [
        ("logistic", dict(features=feats2, source_dimension=1, obs_models="gaussian-diagonal")),
        ("logistic", dict(features=feats2, source_dimension=0, obs_models="gaussian-scalar")),
        ("linear", dict(features=feats2, source_dimension=1, obs_models="gaussian-scalar")),
    ]
    if tier == "thorough":
        cfgs += [
            ("logistic", dict(features=feats2, source_dimension=1, obs_models="gaussian-scalar")),
            ("logistic", dict(features=feats2, source_dimension=0, obs_models="gaussian-diagonal")),
            ("linear", dict(features=feats2, source_dimension=0, obs_models="gaussian-diagonal")),
            ("linear", dict(features=feats2, source_dimension=1, obs_models="gaussian-diagonal")),
            ("logistic", dict(features=feats3, source_dimension=2, obs_models="gaussian-diagonal")),
            ("logistic", dict(features=["a"], obs_models="gaussian-scalar")),
        ]
    return cfgs


def cfg_name(kind, kw):
    return f"{kind}[d={len(kw.get('features', [])) or kw.get('dimension')},s={kw.get('source_dimension')},{kw.get('obs_models', 'default')}]"


def build_model(kind, **kw):
    m = model_factory(kind, **kw)
    m._initialize_state()
    return m


def fresh_state(model, fork=StateForkType.REF):
    return State(model.dag, auto_fork_type=fork)


def by_type(dag, cls):
    return dict(dag.sorted_variables_by_type.get(cls, {}))


def positive_params(name):
    return name.endswith("_std")


def put_symbolic_parameters(state, prefix="", positive_std=True):
    """Every ModelParameter gets a fresh symbolic tensor of its declared shape. `*_std` parameters are assumed > 0."""
    out = {}
    with state.auto_fork(None):
        for name, var in by_type(state.dag, ModelParameter).items():
            shape = tuple(var.shape) if isinstance(var.shape, (tuple, list, torch.Size)) else (int(var.shape),)  # the mixture model declares `probs` with an int shape
            t = st.sym(prefix + name, shape)
            if positive_std and (positive_params(name) or name == "probs"):
                for x in t.sym.reshape(-1):
                    T.assume(x > 0) if not z3.is_fp(x) else T.assume(z3.fpGT(x, z3.FPVal(0.0, x.sort())))
            state[name] = t
            out[name] = t
    return out


def put_symbolic_population(state, prefix=""):
    out = {}
    with state.auto_fork(None):
        for name, var in by_type(state.dag, PopulationLatentVariable).items():
            shape = var.get_prior_shape(state.dag)
            t = st.sym(prefix + name, tuple(shape))
            state[name] = t
            out[name] = t
    return out


def individual_shapes(state, n_ind):
    shapes = {}
    for name, var in by_type(state.dag, IndividualLatentVariable).items():
        shapes[name] = (n_ind,) + tuple(var.get_prior_shape(state.dag))
    return shapes


def put_symbolic_individuals(state, n_ind, prefix=""):
    out = {}
    with state.auto_fork(None):
        for name, shp in individual_shapes(state, n_ind).items():
            t = st.sym(prefix + name, shp)
            state[name] = t
            out[name] = t
    return out


def put_symbolic_data(state, model, n_ind, n_vis, prefix="", mask=None, t=None, y=None):
    """Data as `put_data_variables` would produce it: t weighted by mask.any(features), y weighted by mask."""
    d = model.dimension
    t = st.sym(prefix + "t", (n_ind, n_vis)) if t is None else t
    y = st.sym(prefix + "y", (n_ind, n_vis, d)) if y is None else y
    mask = st.sym(prefix + "mask", (n_ind, n_vis, d), torch.bool) if mask is None else mask
    with state.auto_fork(None):
        model._put_data_timepoints(state, WeightedTensor(t, mask.to(torch.bool).any(dim=-1)))
        state["y"] = WeightedTensor(y, weight=mask.to(torch.bool))
    return dict(t=t, y=y, mask=mask)


def populate(model, n_ind=2, n_vis=2, prefix="", fork=StateForkType.REF, with_data=True):
    s = fresh_state(model, fork)
    ins = {}
    ins.update(put_symbolic_parameters(s, prefix))
    ins.update(put_symbolic_population(s, prefix))
    ins.update(put_symbolic_individuals(s, n_ind, prefix))
    if with_data:
        ins.update(put_symbolic_data(s, model, n_ind, n_vis, prefix))
    return s, ins


def value_terms(v):
    """tensor / WeightedTensor -> (value terms, weight terms or None)"""
    if isinstance(v, WeightedTensor):
        return st.to_terms(v.value), (st.to_terms(v.weight) if v.weight is not None else None)
    return st.to_terms(v), None


def replay_prologue(kind, kw, ins, model, std_abs=True):
    """python source building the same real model + state with concrete inputs read from an SMT model.
    Defines: m (model), s (State, auto-fork REF), and one variable per input name in dict `I`."""
    from vcheck.common import tensor_literal

    lines = [
        "from leaspy.models.factory import model_factory",
        "from leaspy.utils.weighted_tensor import WeightedTensor",
        "from leaspy.variables.state import State, StateForkType",
        f"m = model_factory({kind!r}, **{kw!r}); m._initialize_state()",
        "s = State(m.dag, auto_fork_type=StateForkType.REF)",
        "I = {}",
    ]
    for name, t in ins.items():
        lit = tensor_literal(t, model)
        if std_abs and name.endswith("_std"):
            lit += ".abs() + 1e-3"
        lines.append(f"I[{name!r}] = {lit}")
    lines.append("with s.auto_fork(None):")
    lines.append("    for k, v in I.items():")
    lines.append("        if k in ('t', 'y', 'mask'): continue")
    lines.append("        s[k] = v")
    if "t" in ins:
        lines.append("    mask = I['mask'].bool()")
        lines.append("    m._put_data_timepoints(s, WeightedTensor(I['t'], mask.any(dim=-1)))")
        lines.append("    s['y'] = WeightedTensor(I['y'], weight=mask)")
    return "\n".join(lines) + "\n"
