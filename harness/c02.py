"""C02 — a rejected proposal leaves no trace in the state.

Layer 1 (protocol, reals): on the real State over toy graphs and real model graphs (uninterpreted definitions): proposal
(set / put accumulate / put indices, fork REF or COPY) -> any subset of reads the contract allows -> revert() / revert(mask)
-> every independent value is `before` on rejected rows and `proposed` on accepted rows, untouched elsewhere, and every node read
afterwards (any order) is fresh.
Layer 2 (exactness, IEEE float32): State.revert(subset) on tensor-valued and WeightedTensor-valued nodes, masks of lower rank
(right broadcasting): each element is bit-for-bit the selected side, weights unchanged - including non-finite current values.
Layer 3 (samplers): the real samplers' sample() leaves the accepted/rejected mixture and fresh derived values (harness shared with C03).
"""
from __future__ import annotations

import itertools

import numpy as np
import torch
import z3

from harness.c01 import Harness, build_toy, build_model_graph, TOY, N_IND, _fmt
from harness.c03 import pop_task as _pop_task, ind_task as _ind_task, ind_mixture_task as _ind_mixture_task
from harness.realmodel import *  # noqa
from leaspy.exceptions import LeaspyException, LeaspyInputError
from leaspy.utils.functional import NamedInputFunction
from leaspy.utils.weighted_tensor import unsqueeze_right
from leaspy.variables.dag import VariablesDAG
from leaspy.variables.specs import DataVariable, LinkedVariable
from leaspy.variables.state import State, StateForkType
from vcheck.common import Recorder, guarded, tensor_literal, model_value

PROP = "C02"
META = dict(
    explanation="Proposal / reads / rejection scenarios on the real State: all choices of proposed variable, proposal kind, fork type, read subset and read-back "
    "order are enumerated, values and the per-individual rejection mask are symbolic; independent values are proved to be exactly the before/proposed "
    "mixture and all later reads fresh. revert(subset)'s arithmetic is decided bit-exactly in IEEE float32 (tensor and weighted values, broadcast masks). "
    "The real samplers are executed on every accept/reject pattern (see C03) and the resulting state is proved to be the mixture with fresh derived values.",
    bounds="toy graphs <= 6 nodes (all read subsets), real model graphs (logistic+sources, linear) with the sampler-read sets; optionally one earlier ACCEPTED proposal (accumulate on the first / assignment on the last proposable variable) before the rejected one; a refusal raised by the real State on a feasible path of the protocol is a counterexample; 2 individuals; float32 elements: values of rank 1-3",
    outside="device moves; deep-copy cost of COPY forks; mixture branch of the individual sampler",
    assumptions=["definitions abstracted as functions of declared parents", "partial revert under its documented precondition"],
)


def protocol_task(graph, model=None, pre_fixed=None, start_fixed=None):
    task = f"protocol[{graph}]" + (f"[pre={pre_fixed},start={start_fixed}]" if pre_fixed is not None else "")

    def body():
        rec = Recorder(PROP, task, [State.__setitem__, State.put, State.revert, State.__getitem__, State._get_or_compute_and_cache])
        if model is None:
            dag, ind_nodes = build_toy(graph)
        else:
            dag, ind_nodes, _ = build_model_graph(*model)
        H = Harness(dag, ind_nodes, {"put"}, model is not None)
        hold = {}
        if model is not None:
            prop_roots = [r for r in H.roots if r in ("xi", "tau", "sources", "log_v0", "betas", "log_g", "g")]
            readable = [n for n in ("model", "nll_attach_ind", "nll_attach", "nll_regul_ind_sum_ind", "nll_regul_ind_sum", "rt", "alpha", "space_shifts", "mixing_matrix") if n in dag]
        else:
            prop_roots = list(H.roots)
            readable = list(H.derived)

        def run():
            H.fresh = itertools.count()
            hold.clear()
            # what is cached when the proposal is made: everything / nothing / only what the samplers read
            start = ["cached", "set", "sampler-reads"][T.choose(3) if start_fixed is None else start_fixed]
            S = H.start_state("set" if start != "cached" else "cached")
            if start == "sampler-reads":
                for n in [x for x in readable if x.startswith("nll_") or x in H.derived[-1:]]:
                    S[n]
            fork = [StateForkType.REF, StateForkType.COPY][T.choose(2)]
            S.auto_fork_type = fork
            hold.update(start=start, fork=fork.name, pre=None, reads=[], partial=False)
            # an earlier proposal that was ACCEPTED (its fork is simply left behind, as the samplers do)
            pre = T.choose(3) if pre_fixed is None else pre_fixed
            if pre:
                r0 = prop_roots[0] if pre == 1 else prop_roots[-1]
                v0_ = H.new_value(r0)
                hold.update(pre=("put_acc" if pre == 1 else "set", r0), pre_value=v0_)
                if pre == 1:
                    S.put(r0, v0_, accumulate=True)
                else:
                    S[r0] = v0_
            r = prop_roots[T.choose(len(prop_roots))]
            kind = T.choose(3 if r in H.ind else 2)
            before_roots = {x: S._values[x] for x in H.all_roots}
            before = st.to_terms(S._values[r]).reshape(-1).copy()
            hold.update(r=r, kind=["set", "put_acc", "put_idx"][kind])
            if kind == 0:
                val_ = H.new_value(r)
                hold.update(value=val_)
                S[r] = val_
            elif kind == 1:
                val_ = H.new_value(r)
                hold.update(value=val_)
                S.put(r, val_, accumulate=True)
            else:
                val_ = st.sym("d", (), register=False)
                hold.update(value=val_, index=T.choose(N_IND))
                S.put(r, val_, indices=(hold["index"],), accumulate=True)
            proposed = st.to_terms(S._values[r]).reshape(-1).copy()
            partial = (r in H.ind) and T.choose(2) == 1
            hold.update(partial=partial)
            reads = []
            allowed = [n for n in readable if not (partial and n not in H.ind)]  # contract: only individual-axis variables before a per-individual rejection
            if model is None:
                for n in allowed:
                    if T.choose(2) == 1:
                        reads.append(n)
            else:
                # model graphs: no read / every allowed read / exactly one of them
                k = T.choose(len(allowed) + 2)
                reads = [] if k == 0 else (list(allowed) if k == 1 else [allowed[k - 2]])
            hold.update(reads=list(reads))
            for n in reads:
                S[n]
            if partial:
                mask = st.sym("reject", (N_IND,), torch.bool, register=False)
                hold.update(mask=mask)
                S.revert(mask)
                mt = list(mask.sym)
            else:
                S.revert()
                mt = [z3.BoolVal(True)] * N_IND
            # independent values: the proposed variable is the mixture, the others are untouched (identical objects)
            errs = []
            got = st.to_terms(S._values[r]).reshape(-1)
            k = len(got)
            for i in range(k):
                m = mt[i] if k == N_IND else mt[0]
                exp = T.mk_ite(m, before[i], proposed[i])
                if not got[i].eq(exp) and T.prove(got[i] == exp, timeout_ms=20000).status != "unsat":
                    errs.append((f"{r}[{i}] after rejection is not before/proposed according to the mask", got[i] == exp))
            for x in H.all_roots:
                if x != r and S._values[x] is not before_roots[x]:
                    errs.append((f"independent variable {x} was touched by the rejection", None))
            if S._last_fork is not None:
                errs.append(("fork not consumed by revert", None))
            # every node read afterwards (two orders) is fresh
            order = list(dag) if T.choose(2) == 0 else list(reversed(list(dag)))
            for n in order:
                if n in H.derived:
                    e = H.check_read(S, n, rec, [])
                    if e:
                        errs.append((e, None))
            return dict(errs=errs)

        def describe(m):
            """scenario of the current path with the solver's values for the proposed value(s) and the rejection mask"""
            d = {k: v for k, v in hold.items() if k not in ("value", "pre_value", "mask")}
            lit = lambda t: [model_value(m, x) for x in t.sym.reshape(-1)]
            if "value" in hold:
                d["value"] = lit(hold["value"])
            if "pre_value" in hold:
                d["pre_value"] = lit(hold["pre_value"])
            if "mask" in hold:
                d["mask"] = [bool(z3.is_true(m.eval(x, model_completion=True))) for x in hold["mask"].sym.reshape(-1)]
            return d

        n_bad = 0
        for c, res in st.explore(run, "R"):
            rec.end_path(c)
            if isinstance(res, Exception) and not isinstance(res, LeaspyException):
                raise res
            if not isinstance(res, Exception) and not res["errs"]:
                rec.obligations += 1
                rec.discharged += 1
                if rec.paths in (1, 50, 500):
                    rec.sample({k: v for k, v in hold.items() if k not in ("value", "pre_value", "mask")})
                continue
            n_bad += 1
            if n_bad > 3:
                continue
            if isinstance(res, Exception):
                # the real State refused a step of the proposal / read / rejection protocol on a feasible path
                msg, goal, key = f"{type(res).__name__} raised during the proposal/rejection protocol: {str(res)[:120]}", z3.BoolVal(False), "C02:protocol:exception"
            else:
                msg, goal = res["errs"][0]
                goal, key = (z3.BoolVal(False) if goal is None else goal), f"C02:protocol:{msg[:50]}"
            shown = {k: v for k, v in hold.items() if k not in ("value", "pre_value", "mask")}
            if model is None:
                rec.prove(f"scenario#{rec.paths}", goal, replay=lambda m: _protocol_replay(TOY[graph], describe(m)), key=key, what=f"{msg} in scenario {shown}")
            else:
                rec.unreproduced.append(f"{task}: {msg} in scenario {shown}")
        return rec.result()

    return guarded(PROP, task, body)


def _protocol_replay(graph_desc, desc):
    return f"""
from leaspy.variables.dag import VariablesDAG
from leaspy.variables.specs import DataVariable, Hyperparameter, LinkedVariable, IndepVariable
from leaspy.variables.state import State, StateForkType
from leaspy.utils.functional import NamedInputFunction
GRAPH = {graph_desc!r}; D = {desc!r}; N = 2
pops, inds, hypers, derived = GRAPH
ind_nodes = set(inds); ch = True
while ch:
    ch = False
    for n, ps in derived.items():
        if n not in ind_nodes and any(p in ind_nodes for p in ps): ind_nodes.add(n); ch = True
def mkf(n, ps):
    def f(*vals):
        out = 0.
        for c, v in zip([3., 5., 7., 11.], vals): out = out + c * v * v + v
        return out + float(len(n))
    return NamedInputFunction(f=f, parameters=tuple(ps))
specs = {{}}
for r in pops + inds: specs[r] = DataVariable()
for h in hypers: specs[h] = Hyperparameter(torch.tensor([0.5]))
for n, ps in derived.items(): specs[n] = LinkedVariable(mkf(n, ps))
dag = VariablesDAG.from_dict(specs)
torch.manual_seed(1)
def val(n): return torch.rand((N,) if n in ind_nodes else (1,), dtype=torch.float64) + 1
S = State(dag, auto_fork_type=None)
for r in pops + inds: S[r] = val(r)
if D.get('start', 'cached') == 'cached':
    for n in dag: S[n]
elif D.get('start') == 'sampler-reads':
    S[list(derived)[-1]]
S.auto_fork_type = StateForkType[D['fork']]
def given(key, n): return torch.tensor(D[key], dtype=torch.float64).reshape(val(n).shape) if D.get(key) is not None else val(n)
bad = []
try:
    if D.get('pre'):
        # an earlier, accepted proposal
        k0, r0 = D['pre']
        if k0 == 'set': S[r0] = given('pre_value', r0)
        else: S.put(r0, given('pre_value', r0), accumulate=True)
    r = D['r']; before = S[r].clone(); others = {{x: S[x].clone() for x in pops + inds if x != r}}
    if D['kind'] == 'set': S[r] = given('value', r)
    elif D['kind'] == 'put_acc': S.put(r, given('value', r), accumulate=True)
    else: S.put(r, torch.tensor(D['value'][0] if D.get('value') else 0.37, dtype=torch.float64), indices=(D.get('index', 0),), accumulate=True)
    proposed = S[r].clone()
    for n in D['reads']: S[n]
    mask = torch.tensor(D.get('mask') or [True, False])
    if D['partial']: S.revert(mask)
    else: S.revert(); mask = torch.tensor([True, True])
    exp = torch.where(mask[: len(before)] if len(before) == N else mask[:1], before, proposed)
    if not torch.equal(S[r], exp): bad.append(f'{{r}}: {{S[r]}} expected {{exp}}')
    for x, v in others.items():
        if not torch.equal(S[x], v): bad.append(f'independent variable {{x}} changed by the rejection: {{S[x]}} was {{v}}')
except Exception as e:
    import leaspy.exceptions
    if not isinstance(e, leaspy.exceptions.LeaspyException): raise
    bad.append(f'{{type(e).__name__}} during the proposal / rejection protocol: {{e}}'); print(D, bad); sys.exit(1)
def scratch(n):
    var = dag[n]
    if isinstance(var, IndepVariable): return S._values[n]
    return var.f.f(*[scratch(p) for p in var.f.parameters])
for n in derived:
    if not torch.allclose(S[n], scratch(n).expand_as(S[n]), rtol=0, atol=0): bad.append(f'stale {{n}}')
print(D, bad); sys.exit(1 if bad else 0)
"""


# ------------------------------------------------------------------------------------------------------------------
# layer 2: exact arithmetic of the partial revert in IEEE float32
# ------------------------------------------------------------------------------------------------------------------
def exact_task(layout, finite_only):
    """layout: (value shape, mask shape, weighted?)"""
    vshape, mshape, weighted = layout
    task = f"exact[{vshape},mask={mshape},weighted={weighted},finite_only={finite_only}]"

    def body():
        rec = Recorder(PROP, task, [State.revert, unsqueeze_right, WeightedTensor.__mul__, WeightedTensor.__add__])
        st.new_context("F")
        specs = {"x": DataVariable(), "n": LinkedVariable(NamedInputFunction(lambda x: x, ("x",)))}
        dag = VariablesDAG.from_dict(specs)
        S = State(dag, auto_fork_type=StateForkType.REF)
        old = st.sym("old", vshape)
        cur = st.sym("cur", vshape)
        w = st.sym("w", vshape, torch.bool) if weighted else None
        mask = st.sym("reject", mshape, torch.bool)
        mk = (lambda t: WeightedTensor(t, w)) if weighted else (lambda t: t)
        with S.auto_fork(None):
            S["x"] = mk(old)
        S["n"]
        S["x"] = mk(cur)
        S["n"]
        S.revert(mask)
        if finite_only:
            for t in (old, cur):
                for x in t.sym.reshape(-1):
                    T.assume(z3.Not(z3.Or(z3.fpIsNaN(x), z3.fpIsInf(x))))

        def rp(model):
            wlit = tensor_literal(w, model) if weighted else "None"
            return f"""
from leaspy.variables.dag import VariablesDAG
from leaspy.variables.specs import DataVariable, LinkedVariable
from leaspy.variables.state import State, StateForkType
from leaspy.utils.functional import NamedInputFunction
from leaspy.utils.weighted_tensor import WeightedTensor
old = {tensor_literal(old, model)}; cur = {tensor_literal(cur, model)}; mask = {tensor_literal(mask, model)}; w = {wlit}
mk = (lambda t: WeightedTensor(t, w)) if w is not None else (lambda t: t)
dag = VariablesDAG.from_dict({{"x": DataVariable(), "n": LinkedVariable(NamedInputFunction(lambda x: x, ("x",)))}})
S = State(dag, auto_fork_type=StateForkType.REF)
with S.auto_fork(None): S["x"] = mk(old)
S["n"]; S["x"] = mk(cur); S["n"]
S.revert(mask)
m = mask.reshape(tuple(mask.shape) + (1,) * (old.ndim - mask.ndim)).expand_as(old)
exp = torch.where(m, old, cur)
bad = []
for k in ("x", "n"):
    got = S[k].value if w is not None else S[k]
    same = torch.where(torch.isnan(exp), torch.isnan(got), got == exp)
    if not bool(same.all()): bad.append((k, got, exp))
print('after revert(mask):', bad); sys.exit(1 if bad else 0)
"""

        M = np.broadcast_to(mask.sym.reshape(tuple(mshape) + (1,) * (len(vshape) - len(mshape))), vshape)
        for node in ("x", "n"):
            got = S[node]
            gv = st.to_terms(got.value if weighted else got)
            for idx in np.ndindex(*vshape):
                exp = z3.If(M[idx], old.sym[idx], cur.sym[idx])
                key = "C02:partial-revert-arithmetic-nonfinite" if not finite_only else "C02:partial-revert-arithmetic"
                rec.prove(f"{node}{list(idx)}", T.same_value(gv[idx], exp), replay=rp, key=key, timeout_ms=60000,
                          what="value after revert(subset) is not bit-for-bit the rejected row's old value / accepted row's proposed value")
            if weighted:
                rec.obligations += 1
                if got.weight is not None and all(a.eq(b) or T.prove(a == b).status == "unsat" for a, b in zip(st.to_terms(got.weight).reshape(-1), w.sym.reshape(-1))):
                    rec.discharged += 1
                else:
                    rec.violation_from_script(f"{node}:weights", "C02:revert-weights", rp(_M()), "weights changed by revert(subset)")
        rec.twin("ctx")
        rec.sample({"value_shape": list(vshape), "mask_shape": list(mshape), "weighted": weighted, "finite_only": finite_only})
        rec.end_path()
        return rec.result()

    return guarded(PROP, task, body)


class _M:
    def eval(self, t, model_completion=True):
        s = t.sort()
        return z3.BoolVal(True) if s == z3.BoolSort() else z3.FPVal(1.0, s)


def sampler_pop(kind, shape):
    return _pop_task(kind, shape, prop=PROP)


def sampler_ind(n_ind, shape):
    return _ind_task(n_ind, shape, prop=PROP)


def sampler_ind_mixture(n_ind, shape, n_clusters=2):
    return _ind_mixture_task(n_ind, shape, n_clusters=n_clusters, prop=PROP)


def tasks(tier, seed=0):
    ts = []
    graphs = ["diamond_late_root", "two_roots_grandchild", "hyper_fed"] if tier == "quick" else list(TOY)
    for g in graphs:
        ts.append(("protocol_task", dict(graph=g)))
    # model graphs: split over (earlier accepted proposal, what is cached) so that the pieces run in parallel
    mgs = [("logistic[s=1]", ("logistic", dict(features=["a", "b"], source_dimension=1)))]
    if tier == "thorough":
        mgs += [("linear[s=0]", ("linear", dict(features=["a", "b"], source_dimension=0))), ("joint", ("joint", dict(features=["a"], source_dimension=0, nb_events=1)))]
    for g, mdl in mgs:
        for pre in range(3):
            for start in range(3):
                ts.append(("protocol_task", dict(graph=g, model=mdl, pre_fixed=pre, start_fixed=start)))
    # (2, 2, 2) with a (2,) mask: a value with two more axes than the mask whose last axis has the size of the individual axis
    layouts = [((2,), (2,), False), ((2, 2), (2,), False), ((2, 2), (2,), True), ((2, 1), (2,), False), ((2, 2, 2), (2,), True), ((2, 2, 2), (2,), False)]
    if tier == "thorough":
        layouts += [((3, 2), (3,), False), ((2, 2), (2, 2), False), ((3, 2, 3), (3,), False)]
    for lay in layouts:
        ts.append(("exact_task", dict(layout=lay, finite_only=True)))
        ts.append(("exact_task", dict(layout=lay, finite_only=False)))
    ts.append(("sampler_pop", dict(kind="gibbs", shape=(2,))))
    ts.append(("sampler_pop", dict(kind="metropolis-hastings", shape=(2, 2))))
    ts.append(("sampler_ind", dict(n_ind=2, shape=(2,))))
    ts.append(("sampler_ind_mixture", dict(n_ind=2, shape=(1,))))  # mixture branch: rejected rows keep the previous value, accepted ones the proposal
    return ts
