"""C05 — sufficient statistics follow the stochastic-approximation schedule.

Real code executed: TensorMcmcSaemAlgorithm._maximization_step and AlgorithmWithSamplersMixin._is_burn_in with symbolic iteration
number, burn-in length, step power and statistics; the real constructors (AlgorithmWithSamplersMixin.__init__ through the real
algorithm_factory / TensorMcmcSaemAlgorithm.__init__) with symbolic step power, and - by CrossHair - with symbolic n_iter / explicit
burn-in count / fraction.
"""
from __future__ import annotations

import numpy as np
import torch
import z3

from harness.realmodel import *  # noqa
from leaspy.algo import AlgorithmSettings, algorithm_factory
from leaspy.algo.algo_with_samplers import AlgorithmWithSamplersMixin
from leaspy.algo.fit.mcmc_saem import TensorMcmcSaemAlgorithm
from leaspy.exceptions import LeaspyAlgoInputError
from vcheck.common import Recorder, guarded, tensor_literal, model_value

PROP = "C05"
META = dict(
    explanation="_maximization_step is executed with symbolic current iteration k, burn-in length b, step power and symbolic previous / fresh statistics "
    "(tensor and weighted); on every path it is proved that k <= b+1 uses exactly the fresh statistics, k >= b+2 uses (1-e)S + e s with e = (k-b)^(-power) key "
    "by key, and that the model is updated once with those statistics and burn_in = (k <= b). The step-power guard and the burn-in length rule of the "
    "constructors are decided on the real constructors (symbolic power; CrossHair for the integer/fraction rule).",
    bounds="statistics: 2 keys (one plain (2,), one weighted (2,2)); k, b arbitrary integers with 1 <= k, 0 <= b; power in (0.5, 1]; CrossHair: n_iter >= 1",
    outside="that the model's statistics are what it documents (C04/C10)",
    assumptions=["pow abstracted (same application on both sides)", "model replaced by a recording stub (compute_sufficient_statistics returns symbols, update_parameters records its arguments)"],
)


class _Host:
    _maximization_step = TensorMcmcSaemAlgorithm._maximization_step
    _is_burn_in = AlgorithmWithSamplersMixin._is_burn_in


class _ModelStub:
    def __init__(self, fresh):
        self.fresh = fresh
        self.calls = []

    def compute_sufficient_statistics(self, state):
        return self.fresh

    def update_parameters(self, state, stats, *, burn_in):
        self.calls.append((stats, burn_in))


def schedule_task():
    task = "maximization-step"

    def body():
        rec = Recorder(PROP, task, [TensorMcmcSaemAlgorithm._maximization_step, AlgorithmWithSamplersMixin._is_burn_in])
        hold = {}

        def run():
            k = st.sym("k", (), torch.int64)
            b = st.sym("b", (), torch.int64)
            p = st.sym("power", ())
            T.assume(z3.And(k.sym[()] >= 1, b.sym[()] >= 0, p.sym[()] > T.real_val(0.5), p.sym[()] <= 1))
            # integers: k, b take integer values (ints are embedded in the reals in this theory)
            w = st.sym("w", (2, 2), torch.bool)
            prev = {"a": st.sym("S_a", (2,)), "yx": WeightedTensor(st.sym("S_yx", (2, 2)), w)}
            fresh = {"a": st.sym("s_a", (2,)), "yx": WeightedTensor(st.sym("s_yx", (2, 2)), w)}
            h = _Host()
            h.current_iteration = st.SymScalar(k.sym[()], torch.int64)
            h.algo_parameters = {"n_burn_in_iter": st.SymScalar(b.sym[()], torch.int64), "burn_in_step_power": st.SymScalar(p.sym[()], torch.float32)}
            h.sufficient_statistics = dict(prev)
            model = _ModelStub(fresh)
            hold.update(k=k, b=b, p=p, prev=prev, fresh=fresh, h=h, model=model)
            h._maximization_step(model, None)
            return "done"

        for c, res in st.explore(run, "R"):
            rec.end_path(c)
            if isinstance(res, Exception):
                raise res
            k, b, p, prev, fresh, h, model = (hold[x] for x in ("k", "b", "p", "prev", "fresh", "h", "model"))
            kt, bt, pt = k.sym[()], b.sym[()], p.sym[()]
            T.ctx().congruence = True

            def rp(m_):
                kv, bv, pv = int(round(model_value(m_, kt))), int(round(model_value(m_, bt))), float(model_value(m_, pt))
                return f"""
from leaspy.algo.fit.mcmc_saem import TensorMcmcSaemAlgorithm
from leaspy.algo.algo_with_samplers import AlgorithmWithSamplersMixin
class H:
    _maximization_step = TensorMcmcSaemAlgorithm._maximization_step
    _is_burn_in = AlgorithmWithSamplersMixin._is_burn_in
class M:
    def __init__(s): s.calls = []
    def compute_sufficient_statistics(s, state): return {{'a': torch.tensor([3., 5.]), 'b': torch.tensor([[1., 2.]])}}
    def update_parameters(s, state, stats, *, burn_in): s.calls.append((stats, burn_in))
bad = []
for k, b, p in [({kv}, {bv}, {pv}), (1, 0, 0.75), (2, 0, 0.75), (3, 1, 1.0), (5, 2, 0.6), (2, 5, 0.9), (7, 6, 0.9), (8, 6, 0.9)]:
    h = H(); h.current_iteration = k; h.algo_parameters = {{'n_burn_in_iter': b, 'burn_in_step_power': p}}
    prev = {{'a': torch.tensor([10., 20.]), 'b': torch.tensor([[7., 9.]])}}; h.sufficient_statistics = dict(prev)
    m = M(); h._maximization_step(m, None)
    fresh = m.compute_sufficient_statistics(None)
    if k <= b + 1: exp = fresh
    else:
        e = float(k - b) ** (-p); exp = {{n: prev[n] * (1 - e) + e * fresh[n] for n in prev}}
    got = h.sufficient_statistics
    if set(got) != set(exp) or any(not torch.allclose(got[n], exp[n], rtol=1e-6) for n in exp): bad.append(('stats', k, b, p, got, exp))
    if len(m.calls) != 1 or m.calls[0][0] is not got or m.calls[0][1] != (k <= b): bad.append(('update call', k, b, p, [(c[1]) for c in m.calls]))
print(bad); sys.exit(1 if bad else 0)
"""

            got = h.sufficient_statistics
            rec.obligations += 1
            if set(got) == set(prev):
                rec.discharged += 1
            else:
                rec.violation_from_script("keys", "C05:keys", rp(_One()), "key set of the statistics not preserved")
                continue
            memoryless = z3.Or(kt <= bt, kt == bt + 1)  # == (k <= b + 1) for integers
            e = T.t_pow(kt - bt, T.mk_neg(pt))
            for key in prev:
                gv, gw = value_terms(got[key])
                pv, _ = value_terms(prev[key])
                fv, fw = value_terms(fresh[key])
                for idx in np.ndindex(*gv.shape):
                    exp = z3.If(memoryless, fv[idx], pv[idx] * (1 - e) + e * fv[idx])
                    rec.prove(f"S'[{key}]{list(idx)}", gv[idx] == exp, replay=rp, key="C05:schedule", timeout_ms=40000,
                              what="statistics used for maximization are not s_k (memory-less phase / first iteration after it) or (1-e_k) S_(k-1) + e_k s_k afterwards")
                if gw is not None:
                    rec.obligations += 1
                    if all(a.eq(b_) for a, b_ in zip(gw.reshape(-1), fw.reshape(-1))):
                        rec.discharged += 1
                    else:
                        rec.violation_from_script(f"weights[{key}]", "C05:weights", rp(_One()), "weights of a weighted statistic changed by the averaging")
            # the model is updated exactly once with S' and burn_in = (k <= b)
            rec.obligations += 1
            if len(model.calls) == 1 and model.calls[0][0] is got:
                rec.discharged += 1
            else:
                rec.violation_from_script("update-call", "C05:update-call", rp(_One()), "update_parameters not called exactly once with the averaged statistics")
                continue
            flag = model.calls[0][1]
            flag_t = flag.term if isinstance(flag, st.SymScalar) else z3.BoolVal(bool(flag))
            rec.prove("burn_in-flag", flag_t == (kt <= bt), replay=rp, key="C05:burn-in-flag", what="burn_in flag passed to the model is not (k <= n_burn_in)")
            if rec.paths == 1:
                rec.twin("ctx")
            rec.sample({"path_decisions": [d[1] for d in c.decisions], "k": "symbolic", "b": "symbolic", "power": "symbolic in (0.5,1]"})
        return rec.result()

    return guarded(PROP, task, body)


class _One:
    def eval(self, t, model_completion=True):
        s = t.sort()
        return z3.BoolVal(True) if s == z3.BoolSort() else (z3.IntVal(3) if s == z3.IntSort() else z3.RealVal("3/4"))


def power_guard_task():
    """real constructor chain (algorithm_factory -> TensorMcmcSaemAlgorithm.__init__) with a symbolic step power"""
    task = "step-power-guard"

    def body():
        rec = Recorder(PROP, task, [TensorMcmcSaemAlgorithm.__init__, AlgorithmWithSamplersMixin.__init__])
        hold = {}

        def run():
            p = st.sym("power", ())
            settings = AlgorithmSettings("mcmc_saem", n_iter=10, seed=0)
            settings.parameters["burn_in_step_power"] = st.SymScalar(p.sym[()], torch.float32)
            hold["p"] = p
            algo = algorithm_factory(settings)
            return algo

        for c, res in st.explore(run, "R"):
            rec.end_path(c)
            pt = hold["p"].sym[()]
            ok_range = z3.And(pt > T.real_val(0.5), pt <= 1)

            def rp(m_):
                v = float(model_value(m_, pt))
                return f"""
from leaspy.algo import AlgorithmSettings, algorithm_factory
from leaspy.exceptions import LeaspyAlgoInputError
bad = []
for p in [{v!r}, 0.5, 0.5000001, 1.0, 1.0000001, 0.75, 0.0, -1.0, 2.0]:
    try:
        algorithm_factory(AlgorithmSettings('mcmc_saem', n_iter=10, burn_in_step_power=p)); refused = False
    except LeaspyAlgoInputError: refused = True
    if refused == (0.5 < p <= 1): bad.append((p, refused))
print(bad); sys.exit(1 if bad else 0)
"""

            if isinstance(res, LeaspyAlgoInputError):
                rec.prove("refused=>outside", z3.Not(ok_range), replay=rp, key="C05:power-guard", what="a step power inside (0.5, 1] is refused")
            elif isinstance(res, Exception):
                raise res
            else:
                rec.prove("accepted=>inside", ok_range, replay=rp, key="C05:power-guard", what="a step power outside (0.5, 1] is accepted")
        rec.sample({"power": "symbolic real", "paths": rec.paths})
        return rec.result()

    return guarded(PROP, task, body)


def crosshair_burn_in_task():
    task = "crosshair[burn-in length]"

    def body():
        from vcheck.crosshair_util import run_crosshair

        rec = Recorder(PROP, task, [AlgorithmWithSamplersMixin.__init__])
        res = run_crosshair("/verif/crosshair_harness/c05_burn_in.py", per_condition_timeout=60)
        from vcheck.crosshair_util import record

        record(rec, task, res, "/verif/crosshair_harness/c05_burn_in.py")
        return rec.result()

    return guarded(PROP, task, body)


def tasks(tier, seed=0):
    return [("schedule_task", {}), ("power_guard_task", {}), ("crosshair_burn_in_task", {})]
