"""C05 — sufficient statistics follow the stochastic-approximation schedule.

Real code executed: TensorMcmcSaemAlgorithm._maximization_step and AlgorithmWithSamplersMixin._is_burn_in with symbolic iteration
number, burn-in length, step power and statistics; the real constructors (AlgorithmWithSamplersMixin.__init__ through the real
algorithm_factory / TensorMcmcSaemAlgorithm.__init__) with symbolic step power, and - by CrossHair - with symbolic n_iter / explicit
burn-in count / fraction.
"""
from __future__ import annotations

import numpy as np
import torch
import z3

from harness.realmodel import *  # noqa
from leaspy.algo import AlgorithmSettings, algorithm_factory
from leaspy.algo.algo_with_samplers import AlgorithmWithSamplersMixin
from leaspy.algo.fit.mcmc_saem import TensorMcmcSaemAlgorithm
from leaspy.exceptions import LeaspyAlgoInputError
from vcheck.common import Recorder, guarded, tensor_literal, model_value

PROP = "C05"
META = dict(
    explanation="_maximization_step is executed with symbolic current iteration k, burn-in length b, step power and symbolic previous / fresh statistics "
    "(tensor and weighted); on every path it is proved that k <= b+1 uses exactly the fresh statistics, k >= b+2 uses (1-e)S + e s with e = (k-b)^(-power) key "
    "by key, and that the model is updated once with those statistics and burn_in = (k <= b). The step-power guard and the burn-in length rule of the "
    "constructors are decided on the real constructors (symbolic power; CrossHair for the integer/fraction rule).",
    bounds="statistics: 2 keys (one plain (2,), one weighted (2,2)); k, b arbitrary integers with 1 <= k, 0 <= b; power in (0.5, 1]; CrossHair: n_iter >= 1",
    outside="that the model's statistics are what it documents (C04/C10)",
    assumptions=["pow abstracted (same application on both sides)", "model replaced by a recording stub (compute_sufficient_statistics returns symbols, update_parameters records its arguments)"],
)


class _Host:
    _maximization_step = TensorMcmcSaemAlgorithm._maximization_step
    _is_burn_in = AlgorithmWithSamplersMixin._is_burn_in


class _ModelStub:
    def __init__(self, fresh):
        self.fresh = fresh
        self.calls = []

    def compute_sufficient_statistics(self, state):
        return self.fresh

    def update_parameters(self, state, stats, *, burn_in):
        self.calls.append((stats, burn_in))


def schedule_task():
    task = "maximization-step"

    def body():
        rec = Recorder(PROP, task, [TensorMcmcSaemAlgorithm._maximization_step, AlgorithmWithSamplersMixin._is_burn_in])
        hold = {}

        def run():
            k = st.sym("k", (), torch.int64)
            b = st.sym("b", (), torch.int64)
            p = st.sym("power", ())
            T.assume(z3.And(k.sym[()] >= 1, b.sym[()] >= 0, p.sym[()] > T.real_val(0.5), p.sym[()] <= 1))
            # integers: k, b take integer values (ints are embedded in the reals in this theory)
            w = st.sym("w", (2, 2), torch.bool)
            prev = {"a": st.sym("S_a", (2,)), "yx": WeightedTensor(st.sym("S_yx", (2, 2)), w)}
            fresh = {"a": st.sym("s_a", (2,)), "yx": WeightedTensor(st.sym("s_yx", (2, 2)), w)}
            # the real algorithm object (real constructors), then an arbitrary iteration of an arbitrary schedule
            h = algorithm_factory(AlgorithmSettings("mcmc_saem", n_iter=10, seed=0, progress_bar=False))
            h.current_iteration = st.SymScalar(k.sym[()], torch.int64)
            h.algo_parameters = dict(h.algo_parameters, n_burn_in_iter=st.SymScalar(b.sym[()], torch.int64), burn_in_step_power=st.SymScalar(p.sym[()], torch.float32))
            h.sufficient_statistics = dict(prev)
            # the temperature of the annealing mixin is arbitrary (>= 1) at this iteration: the schedule must not depend on it
            temp = st.sym("temperature", ())
            T.assume(temp.sym[()] >= 1)
            h.temperature = st.SymScalar(temp.sym[()], torch.float32)
            h.temperature_inv = st.SymScalar(1 / temp.sym[()], torch.float32)
            model = _ModelStub(fresh)
            hold.update(k=k, b=b, p=p, prev=prev, fresh=fresh, h=h, model=model, temp=temp)
            h._maximization_step(model, None)
            return "done"

        for c, res in st.explore(run, "R"):
            rec.end_path(c)
            if isinstance(res, Exception):
                raise res
            k, b, p, prev, fresh, h, model = (hold[x] for x in ("k", "b", "p", "prev", "fresh", "h", "model"))
            kt, bt, pt = k.sym[()], b.sym[()], p.sym[()]
            T.ctx().congruence = True

            def rp(m_):
                kv, bv, pv = int(round(model_value(m_, kt))), int(round(model_value(m_, bt))), float(model_value(m_, pt))
                cfgs = ([(kv, bv, pv)] if 1 <= kv <= 40 and 0 <= bv else []) + [(6, b_, q_) for b_ in range(7) for q_ in (0.75, 1.0)]
                try:
                    hot = float(model_value(m_, hold["temp"].sym[()])) > 1
                except Exception:
                    hot = False
                if hot:  # the counterexample has the annealing still hot: replay real runs with annealing on
                    return _runs_replay([(12, b_, q_) for b_ in range(7) for q_ in (0.75, 1.0)], n_runs=1, annealing=True)
                return _runs_replay(cfgs, n_runs=1)

            got = h.sufficient_statistics
            rec.obligations += 1
            if set(got) == set(prev):
                rec.discharged += 1
            else:
                rec.violation_from_script("keys", "C05:keys", rp(_One()), "key set of the statistics not preserved")
                continue
            memoryless = z3.Or(kt <= bt, kt == bt + 1)  # == (k <= b + 1) for integers
            e = T.t_pow(kt - bt, T.mk_neg(pt))
            for key in prev:
                gv, gw = value_terms(got[key])
                pv, _ = value_terms(prev[key])
                fv, fw = value_terms(fresh[key])
                for idx in np.ndindex(*gv.shape):
                    exp = z3.If(memoryless, fv[idx], pv[idx] * (1 - e) + e * fv[idx])
                    rec.prove(f"S'[{key}]{list(idx)}", gv[idx] == exp, replay=rp, key="C05:schedule", timeout_ms=40000,
                              what="statistics used for maximization are not s_k (memory-less phase / first iteration after it) or (1-e_k) S_(k-1) + e_k s_k afterwards")
                if gw is not None:
                    rec.obligations += 1
                    if all(a.eq(b_) for a, b_ in zip(gw.reshape(-1), fw.reshape(-1))):
                        rec.discharged += 1
                    else:
                        rec.violation_from_script(f"weights[{key}]", "C05:weights", rp(_One()), "weights of a weighted statistic changed by the averaging")
            # the model is updated exactly once with S' and burn_in = (k <= b)
            rec.obligations += 1
            if len(model.calls) == 1 and model.calls[0][0] is got:
                rec.discharged += 1
            else:
                rec.violation_from_script("update-call", "C05:update-call", rp(_One()), "update_parameters not called exactly once with the averaged statistics")
                continue
            flag = model.calls[0][1]
            flag_t = flag.term if isinstance(flag, st.SymScalar) else z3.BoolVal(bool(flag))
            rec.prove("burn_in-flag", flag_t == (kt <= bt), replay=rp, key="C05:burn-in-flag", what="burn_in flag passed to the model is not (k <= n_burn_in)")
            if rec.paths == 1:
                rec.twin("ctx")
            rec.sample({"path_decisions": [d[1] for d in c.decisions], "k": "symbolic", "b": "symbolic", "power": "symbolic in (0.5,1]"})
        return rec.result()

    return guarded(PROP, task, body)


def _tiny_fit_setup():
    """(model, dataset) for a 4-subject, 2-feature logistic fit: the real run loop needs a real state / samplers"""
    import pandas as pd

    from leaspy.io.data import Data, Dataset
    from leaspy.models import LogisticModel

    rng = np.random.default_rng(0)
    rows = [(f"s{i}", 60.0 + 2 * j + i, float(np.clip(0.2 + 0.06 * j + 0.01 * i + 0.01 * rng.standard_normal(), 0.01, 0.99)), float(np.clip(0.3 + 0.04 * j + 0.01 * rng.standard_normal(), 0.01, 0.99))) for i in range(4) for j in range(3)]
    data = Data.from_dataframe(pd.DataFrame(rows, columns=["ID", "TIME", "a", "b"]))
    dataset = Dataset(data)
    model = LogisticModel("logistic", source_dimension=1)
    model.initialize(dataset)
    return model, dataset


def _runs_replay(cfgs, n_runs, annealing=False):
    """real TensorMcmcSaemAlgorithm._run (real loop, samplers, maximization step) on a real tiny model whose statistics are replaced by
    recorded random tensors; the same algorithm object is run `n_runs` times; every iteration is compared with the documented schedule"""
    return f"""
import numpy as np, pandas as pd
from leaspy.algo import AlgorithmSettings, algorithm_factory
from leaspy.io.data import Data, Dataset
from leaspy.models import LogisticModel
rng = np.random.default_rng(0)
rows = [(f"s{{i}}", 60.0 + 2 * j + i, float(np.clip(0.2 + 0.06 * j + 0.01 * i, 0.01, 0.99)), float(np.clip(0.3 + 0.04 * j, 0.01, 0.99))) for i in range(4) for j in range(3)]
dataset = Dataset(Data.from_dataframe(pd.DataFrame(rows, columns=["ID", "TIME", "a", "b"])))
bad = []
for K, B, P in {cfgs!r}:
    ann = dict(annealing=dict(do_annealing=True, initial_temperature=8.0, n_plateau=5, n_iter_frac=0.8)) if {annealing!r} else {{}}
    algo = algorithm_factory(AlgorithmSettings("mcmc_saem", n_iter=K, n_burn_in_iter=B, burn_in_step_power=P, seed=0, progress_bar=False, **ann))
    for run in range({n_runs}):
        model = LogisticModel("logistic", source_dimension=1); model.initialize(dataset)
        log = []
        def css(state):
            f = {{"a": torch.tensor(rng.standard_normal(2)), "yx": torch.tensor(rng.standard_normal((2, 2)))}}; log.append([f]); return f
        def upd(state, stats, *, burn_in):
            log[-1] += [algo.current_iteration, {{k: v.clone() for k, v in stats.items()}}, burn_in]
        model.compute_sufficient_statistics = css; model.update_parameters = upd
        algo._run(model, dataset)
        if [e[1] for e in log if len(e) == 4] != list(range(1, K + 1)): bad.append(("iterations", K, B, run, [e[1:2] for e in log])); continue
        S = None
        for fresh, k, got, flag in log:
            if k <= B + 1: exp = fresh
            else:
                e = float(k - B) ** (-P); exp = {{n: S[n] * (1 - e) + e * fresh[n] for n in fresh}}
            if any(not torch.allclose(got[n], exp[n], rtol=1e-9, atol=1e-12) for n in exp): bad.append(("S_k", dict(n_iter=K, n_burn_in=B, power=P, run=run, k=k), got, exp)); break
            if flag != (k <= B): bad.append(("burn_in flag", K, B, run, k, flag)); break
            S = exp
print(bad[:3]); sys.exit(1 if bad else 0)
"""


def runs_task(K, b, n_runs=2):
    """Bounded unrolling of the real run loop: `n_runs` consecutive runs of ONE algorithm object (real _run / _iteration /
    _maximization_step, real samplers on a real tiny model), K iterations each, with symbolic step power and fresh symbolic
    statistics at every iteration: the statistics handed to the model at iteration k of every run are S_k of the schedule."""
    task = f"runs[n_iter={K},n_burn_in={b},runs={n_runs}]"

    def body():
        import contextlib
        import io

        rec = Recorder(PROP, task, [TensorMcmcSaemAlgorithm._run, TensorMcmcSaemAlgorithm._iteration, TensorMcmcSaemAlgorithm._maximization_step, TensorMcmcSaemAlgorithm._initialize_algo, AlgorithmWithSamplersMixin._is_burn_in])
        rec.stubs += ["model.compute_sufficient_statistics -> fresh symbols per iteration", "model.update_parameters -> recorder"]
        st.new_context("R")
        T.ctx().congruence = True
        p = st.sym("power", ())
        pt = p.sym[()]
        T.assume(z3.And(pt > T.real_val(0.5), pt <= 1))
        model, dataset = _tiny_fit_setup()
        algo = algorithm_factory(AlgorithmSettings("mcmc_saem", n_iter=K, n_burn_in_iter=b, seed=0, progress_bar=False))
        algo.algo_parameters["burn_in_step_power"] = st.SymScalar(pt, torch.float32)

        def rp(m_):
            return _runs_replay([(K, b, float(model_value(m_, pt))), (K, b, 0.75), (K, b, 1.0)], n_runs)

        for run in range(n_runs):
            if run:
                model, _ = _tiny_fit_setup()
            log = []

            def css(state, run=run, log=log):
                i = len(log)
                f = {"a": st.sym(f"s{run}_{i}_a", (2,)), "yx": st.sym(f"s{run}_{i}_yx", (2, 2))}
                log.append([f])
                return f

            def upd(state, stats, *, burn_in, log=log):
                log[-1] += [algo.current_iteration, dict(stats), burn_in]

            model.compute_sufficient_statistics = css
            model.update_parameters = upd
            with contextlib.redirect_stdout(io.StringIO()):
                algo._run(model, dataset)
            ks = [e[1] for e in log if len(e) == 4]
            rec.obligations += 1
            if ks == list(range(1, K + 1)):
                rec.discharged += 1
            else:
                rec.violation_from_script(f"run{run}:iterations", "C05:iterations", rp(_One()), f"maximization steps at iterations {ks} instead of 1..{K}")
                continue
            S = None
            for fresh, k, got, flag in log:
                e = T.t_pow(T.real_val(k - b), T.mk_neg(pt)) if k > b + 1 else None
                for key in fresh:
                    fv = st.to_terms(fresh[key]).reshape(-1)
                    gv = st.to_terms(got[key]).reshape(-1)
                    ev = fv if e is None else np.array([S[key][i] * (1 - e) + e * fv[i] for i in range(len(fv))], dtype=object)
                    for i in range(len(fv)):
                        rec.prove(f"run{run}:S_{k}[{key}][{i}]", gv[i] == ev[i], replay=rp, key="C05:schedule-over-runs", timeout_ms=40000,
                                  what=f"run {run + 1} of the same algorithm object, iteration {k}: the statistics used for maximization are not S_k of the documented schedule")
                S = {key: (st.to_terms(fresh[key]).reshape(-1) if e is None else np.array([S[key][i] * (1 - e) + e * st.to_terms(fresh[key]).reshape(-1)[i] for i in range(st.to_terms(fresh[key]).size)], dtype=object)) for key in fresh}
                rec.obligations += 1
                if bool(flag) == (k <= b):
                    rec.discharged += 1
                else:
                    rec.violation_from_script(f"run{run}:flag[{k}]", "C05:burn-in-flag", rp(_One()), f"burn_in flag {flag} at iteration {k} with n_burn_in {b}")
        rec.twin("ctx")
        rec.sample({"n_iter": K, "n_burn_in": b, "runs_of_one_object": n_runs, "power": "symbolic in (0.5,1]", "statistics": "fresh symbols per iteration"})
        rec.end_path()
        return rec.result()

    return guarded(PROP, task, body)


class _One:
    def eval(self, t, model_completion=True):
        s = t.sort()
        return z3.BoolVal(True) if s == z3.BoolSort() else (z3.IntVal(3) if s == z3.IntSort() else z3.RealVal("3/4"))


def power_guard_task():
    """real constructor chain (algorithm_factory -> TensorMcmcSaemAlgorithm.__init__) with a symbolic step power"""
    task = "step-power-guard"

    def body():
        rec = Recorder(PROP, task, [TensorMcmcSaemAlgorithm.__init__, AlgorithmWithSamplersMixin.__init__])
        hold = {}

        def run():
            p = st.sym("power", ())
            settings = AlgorithmSettings("mcmc_saem", n_iter=10, seed=0)
            settings.parameters["burn_in_step_power"] = st.SymScalar(p.sym[()], torch.float32)
            hold["p"] = p
            algo = algorithm_factory(settings)
            return algo

        for c, res in st.explore(run, "R"):
            rec.end_path(c)
            pt = hold["p"].sym[()]
            ok_range = z3.And(pt > T.real_val(0.5), pt <= 1)

            def rp(m_):
                v = float(model_value(m_, pt))
                return f"""
from leaspy.algo import AlgorithmSettings, algorithm_factory
from leaspy.exceptions import LeaspyAlgoInputError
bad = []
for p in [{v!r}, 0.5, 0.5000001, 1.0, 1.0000001, 0.75, 0.0, -1.0, 2.0]:
    try:
        algorithm_factory(AlgorithmSettings('mcmc_saem', n_iter=10, burn_in_step_power=p)); refused = False
    except LeaspyAlgoInputError: refused = True
    if refused == (0.5 < p <= 1): bad.append((p, refused))
print(bad); sys.exit(1 if bad else 0)
"""

            if isinstance(res, LeaspyAlgoInputError):
                rec.prove("refused=>outside", z3.Not(ok_range), replay=rp, key="C05:power-guard", what="a step power inside (0.5, 1] is refused")
            elif isinstance(res, Exception):
                raise res
            else:
                rec.prove("accepted=>inside", ok_range, replay=rp, key="C05:power-guard", what="a step power outside (0.5, 1] is accepted")
        rec.sample({"power": "symbolic real", "paths": rec.paths})
        return rec.result()

    return guarded(PROP, task, body)


def crosshair_burn_in_task():
    task = "crosshair[burn-in length]"

    def body():
        from vcheck.crosshair_util import run_crosshair

        rec = Recorder(PROP, task, [AlgorithmWithSamplersMixin.__init__])
        res = run_crosshair("/verif/crosshair_harness/c05_burn_in.py", per_condition_timeout=60)
        from vcheck.crosshair_util import record

        record(rec, task, res, "/verif/crosshair_harness/c05_burn_in.py")
        return rec.result()

    return guarded(PROP, task, body)


def tasks(tier, seed=0):
    ts = [("schedule_task", {}), ("power_guard_task", {}), ("crosshair_burn_in_task", {})]
    cfgs = [(4, 0), (4, 1), (4, 2), (4, 4)] if tier == "quick" else [(K, b) for K in (4, 6) for b in range(K + 1)]
    ts += [("runs_task", dict(K=K, b=b)) for K, b in cfgs]
    if tier == "thorough":
        ts.append(("runs_task", dict(K=4, b=1, n_runs=3)))
    return ts
