"""C09 — individual trajectories follow the documented closed form.

Real code executed: TimeReparametrizedModel.time_reparametrization, {Logistic,Linear,SharedSpeedLogistic}Model.metric /
model_with_sources / model_no_sources and all intermediate LinkedVariables, through the real State/DAG (`state["model"]`),
McmcSaemCompatibleModel.compute_individual_trajectory (+ _get_tensorized_inputs, _audit_individual_parameters,
_put_data_timepoints, State.clone) and BaseModel.estimate (dict route).
"""
from __future__ import annotations

import itertools

import numpy as np
import torch
import z3

from harness.realmodel import *  # noqa
from leaspy.models.base import BaseModel
from leaspy.models.mcmc_saem_compatible import McmcSaemCompatibleModel
from leaspy.models.time_reparametrized import TimeReparametrizedModel
from vcheck.common import Recorder, guarded, tensor_literal

PROP = "C09"
META = dict(
    explanation="state['model'] of the real DAG of each model kind, compute_individual_trajectory and estimate are executed on symbolic "
    "parameters / individual parameters / ages / masks; each output entry is proved equal to the documented closed form, logistic "
    "outputs are proved in (0,1), non-decreasing in age, equal to 1/(1+g) at the reference point, and rows are proved to sit at the "
    "position of their requested age.",
    bounds="dimension <= 3, sources <= 2, individuals <= 2, visits/ages <= 3; reals (no rounding/overflow); histories on one model object: estimate, change every parameter in place, estimate again (the second follows the new parameters)",
    outside="pandas MultiIndex branch of estimate; floating-point saturation at far extrapolation",
    assumptions=["floats as reals", "exp/log abstracted with exp>0, monotonicity instances and exp(log g)=g for g>0", "IndividualParameters replaced by a plain dict in estimate (duck-typed `[]` access only)"],
)

KINDS = {
    "quick": [
        ("logistic", dict(features=["a", "b"], source_dimension=1)),
        ("logistic", dict(features=["a", "b"], source_dimension=0)),
        ("linear", dict(features=["a", "b"], source_dimension=1)),
        ("shared_speed_logistic", dict(features=["a", "b"], source_dimension=1)),
    ],
    "thorough": [
        ("logistic", dict(features=["a", "b", "c"], source_dimension=2)),
        ("logistic", dict(features=["a"])),
        ("linear", dict(features=["a", "b", "c"], source_dimension=2)),
        ("linear", dict(features=["a", "b"], source_dimension=0)),
        ("shared_speed_logistic", dict(features=["a", "b"], source_dimension=0)),
        ("shared_speed_logistic", dict(features=["a", "b", "c"], source_dimension=1)),
    ],
}


def closed_form(kind, ins, mixing, i, t_term, k):
    """documented trajectory of individual i, feature k at (reparametrised from) age t_term; built only from the
    independent values (and the mixing matrix, which C10 covers)."""
    xi = ins["xi"].sym[i, 0]
    tau = ins["tau"].sym[i, 0]
    alpha = T.t_exp(xi)
    rt = alpha * (t_term - tau)
    w = T.real_val(0)
    if mixing is not None:
        src = ins["sources"].sym
        for s_ in range(src.shape[1]):
            w = w + src[i, s_] * mixing[s_, k]
    if kind == "logistic":
        g = T.t_exp(ins["log_g"].sym[k])
        v0 = T.t_exp(ins["log_v0"].sym[k])
        m = (g + 1) * (g + 1) / g
        return T.t_sigmoid(m * (v0 * rt + w) - T.t_log(g)), (g, v0, alpha)
    if kind == "linear":
        g = ins["g"].sym[k]
        v0 = T.t_exp(ins["log_v0"].sym[k])
        return g + v0 * rt + w, (g, v0, alpha)
    if kind == "shared_speed_logistic":
        g = T.t_exp(ins["log_g"].sym[0])
        delta = T.real_val(0) if k == 0 else ins["deltas"].sym[k - 1]
        de = T.t_exp(T.mk_mul(T.real_val(-1), delta))
        gd = g * de
        m = (gd + 1) * (gd + 1) / gd
        return T.t_sigmoid(m * w + rt + delta - ins["log_g"].sym[0]), (g, None, alpha)
    raise ValueError(kind)


def exp_log_axioms():
    """exp(log x) = x for x > 0, for every log application met on this path"""
    out = []
    for (x,), k in list(T.ctx().apps.get("log", [])):
        out.append(z3.Implies(x > 0, T.apply_fn("exp", (k,)) == x))
    return out


def _replay_model(kind, kw, ins, extra_src):
    def rp(model):
        return replay_prologue(kind, kw, ins, model) + extra_src

    return rp


REF_IMPL = '''
def ref_model(kind, I, mm, t):
    xi, tau = I['xi'].double(), I['tau'].double()
    rt = torch.exp(xi) * (t.double() - tau)            # (n, v)
    w = (I['sources'].double() @ mm.double()) if mm is not None else torch.zeros(1, 1, dtype=torch.double)
    rt = rt[..., None]; w = w[:, None, :]
    if kind == 'logistic':
        g = torch.exp(I['log_g'].double()); v0 = torch.exp(I['log_v0'].double())
        return torch.sigmoid((g + 1) ** 2 / g * (v0 * rt + w) - torch.log(g))
    if kind == 'linear':
        return I['g'].double() + torch.exp(I['log_v0'].double()) * rt + w
    g = torch.exp(I['log_g'].double()); d = torch.cat((torch.zeros(1, dtype=torch.double), I['deltas'].double()))
    gd = g * torch.exp(-d)
    return torch.sigmoid((gd + 1) ** 2 / gd * w + rt + d - I['log_g'].double())
'''


def formula_task(kind, kw, n_ind, n_vis):
    task = f"formula[{cfg_name(kind, kw)},n={n_ind},v={n_vis}]"

    def body():
        m = build_model(kind, **kw)
        rec = Recorder(PROP, task, [type(m).model_with_sources, type(m).metric, TimeReparametrizedModel.time_reparametrization, type(m).get_variables_specs, State.__getitem__])

        def run():
            s, ins = populate(m, n_ind, n_vis)
            out = s["model"]
            mm = s["mixing_matrix"] if m.has_sources else None
            return s, ins, out, mm

        for c, res in st.explore(run, "R"):
            if isinstance(res, Exception):
                raise res
            s, ins, out, mm = res
            d = m.dimension
            assert tuple(out.shape) == (n_ind, n_vis, d), out.shape
            O = st.to_terms(out)
            mix = mm.sym if mm is not None else None
            replay_src = (
                REF_IMPL
                + f"out = s['model']; mm = s['mixing_matrix'] if {m.has_sources!r} else None\n"
                + f"ref = ref_model({kind!r}, I, mm, I['t'])\n"
                + "vis = I['mask'].bool().any(-1)[..., None].expand_as(ref)\n"
                + "ref = torch.where(vis, ref, torch.zeros_like(ref))\n"
                + "ok = torch.allclose(out.double(), ref, rtol=1e-4, atol=1e-5)\n"
                + (("ok = ok and bool(((out >= 0) & (out <= 1)).all())\n") if kind != "linear" else "")
                + "print(out, ref)\nsys.exit(0 if ok else 1)\n"
            )
            rp = _replay_model(kind, kw, ins, replay_src)
            lem = exp_log_axioms()
            for i in range(n_ind):
                for j in range(n_vis):
                    present = z3.Or(*[ins["mask"].sym[i, j, k] for k in range(d)])
                    for k in range(d):
                        cf, (g, v0, alpha) = closed_form(kind, ins, mix, i, ins["t"].sym[i, j], k)
                        lem2 = exp_log_axioms()
                        # the largest thorough-tier shape of the shared-speed model is best effort (nested exponentials of 3 features)
                        req = not (kind == "shared_speed_logistic" and d > 2)
                        rec.prove(f"model[{i},{j},{k}]", O[i, j, k] == z3.If(present, cf, T.real_val(0)), replay=rp, extra=lem2, required=req, timeout_ms=60000 if req else 120000, what="trajectory != documented closed form")
                        if kind != "linear":
                            rec.prove(f"range[{i},{j},{k}]", z3.Implies(present, z3.And(O[i, j, k] > 0, O[i, j, k] < 1)), replay=rp, extra=lem2, what="logistic output outside [0,1]")
            rec.twin("ctx")
            rec.end_path(c)
        rec.sample({"model": cfg_name(kind, kw), "n_ind": n_ind, "n_visits": n_vis, "mask": "symbolic", "entries": n_ind * n_vis * m.dimension})
        return rec.result()

    return guarded(PROP, task, body)


def _ips(m, prefix=""):
    ips = {"xi": st.sym(prefix + "xi", (1, 1)), "tau": st.sym(prefix + "tau", (1, 1))}
    if m.has_sources:
        ips["sources"] = st.sym(prefix + "sources", (1, m.source_dimension))
    return ips


def _model_with_params(kind, kw):
    m = build_model(kind, **kw)
    ins = {}
    ins.update(put_symbolic_parameters(m.state))
    ins.update(put_symbolic_population(m.state))
    return m, ins


def trajectory_task(kind, kw, n_ages):
    """compute_individual_trajectory: layout (1, n, d), ages keep their positions (unsorted, possibly repeated),
    monotone in age, reference point."""
    task = f"trajectory[{cfg_name(kind, kw)},ages={n_ages}]"

    def body():
        probe = build_model(kind, **kw)
        rec = Recorder(PROP, task, [McmcSaemCompatibleModel.compute_individual_trajectory, McmcSaemCompatibleModel._get_tensorized_inputs,
                                    TimeReparametrizedModel._audit_individual_parameters, McmcSaemCompatibleModel._put_data_timepoints, State.clone, type(probe).model_with_sources])

        hold2 = {}

        def run():
            m, ins = _model_with_params(kind, kw)
            ips = _ips(m)
            ages = st.sym("ages", (n_ages,))
            # the public entry point takes arrays: pass 1-D parameters exactly as the API documents (scalars / 1-D)
            call_ips = {"xi": ips["xi"][0, 0], "tau": ips["tau"][0, 0]}
            if m.has_sources:
                call_ips["sources"] = ips["sources"][0]
            before = dict(m.state._values)
            out = m.compute_individual_trajectory(ages, call_ips)
            untouched = all(m.state._values[k] is before[k] for k in before) and m.state._last_fork is None
            mm = m.state["mixing_matrix"] if m.has_sources else None
            # the same model object after an in-place change of its parameters (load_parameters on a loaded model, a fit step):
            # the next estimate follows the NEW parameters
            ins2 = {}
            ins2.update(put_symbolic_parameters(m.state, prefix="n_"))
            ins2.update(put_symbolic_population(m.state, prefix="n_"))
            out2 = m.compute_individual_trajectory(ages, call_ips)
            mm2 = m.state["mixing_matrix"] if m.has_sources else None
            hold2.update(ins2=ins2, out2=out2, mm2=mm2)
            return m, ins, ips, ages, out, mm, untouched

        for c, res in st.explore(run, "R"):
            if isinstance(res, Exception):
                raise res
            m, ins, ips, ages, out, mm, untouched = res
            d = m.dimension
            rec.obligations += 1
            if tuple(out.shape) == (1, n_ages, d):
                rec.discharged += 1
            else:
                rec.violation_from_script("shape", "C09:trajectory-shape", f"sys.exit(1)  # shape {tuple(out.shape)}\n", "bad layout")
                continue
            allin = dict(ins)
            allin.update(ips)
            O = st.to_terms(out)
            mix = mm.sym if mm is not None else None
            src = (
                REF_IMPL
                + f"ages = {{AGES}}\nips = {{'xi': I['xi'][0,0], 'tau': I['tau'][0,0]" + (", 'sources': I['sources'][0]" if m.has_sources else "") + "}\n"
                + "m._state = s\nout = m.compute_individual_trajectory(ages, ips)\n"
                + f"mm = s['mixing_matrix'] if {m.has_sources!r} else None\n"
                + f"ref = ref_model({kind!r}, I, mm, ages[None, :])\n"
                + f"ok = tuple(out.shape) == (1, len(ages), {d}) and torch.allclose(out.double(), ref, rtol=1e-4, atol=1e-5)\n"
                + ("order = torch.argsort(ages); so = out[0][order]\nok = ok and bool((so[1:] >= so[:-1] - 1e-6).all())\n" if kind != "linear" else "")
                + "print(out, ref); sys.exit(0 if ok else 1)\n"
            )

            def rp(model, src=src):
                return replay_prologue(kind, kw, allin, model) + src.replace("{AGES}", tensor_literal(ages, model))

            cfs = []
            for j in range(n_ages):
                row = []
                for k in range(d):
                    cf, aux = closed_form(kind, allin, mix, 0, ages.sym[j], k)
                    row.append((cf, aux))
                cfs.append(row)
            lem = exp_log_axioms()
            for j in range(n_ages):
                for k in range(d):
                    rec.prove(f"row[{j}][{k}]", O[0, j, k] == cfs[j][k][0], replay=rp, extra=lem, what="row j of the trajectory is not the formula at the j-th requested age")
            # monotone in age (logistic kinds): for every ordered pair of requested ages
            if kind != "linear":
                mono = T.monotone_axioms(("exp",))
                for j1, j2 in itertools.permutations(range(n_ages), 2):
                    if j1 > j2 and n_ages > 2:
                        continue
                    for k in range(d):
                        rec.prove(
                            f"monotone[{j1}<={j2}][{k}]",
                            z3.Implies(ages.sym[j1] <= ages.sym[j2], O[0, j1, k] <= O[0, j2, k]),
                            replay=rp,
                            extra=lem + mono,
                            timeout_ms=60000,
                            what="logistic trajectory decreases with age",
                        )
                # reference point: xi = 0, no space shift, t = tau  =>  1/(1+g_k)
                if kind == "logistic":
                    for k in range(d):
                        g = T.t_exp(allin["log_g"].sym[k])
                        hyp = [allin["xi"].sym[0, 0] == 0, ages.sym[0] == allin["tau"].sym[0, 0]]
                        if m.has_sources:
                            hyp += [x == 0 for x in allin["sources"].sym.reshape(-1)]
                        rec.prove(f"refpoint[{k}]", z3.Implies(z3.And(*hyp), O[0, 0, k] == 1 / (1 + g)), replay=rp, extra=exp_log_axioms() + lem, what="value at reference time != 1/(1+g)")
            # second estimate, after the in-place parameter change
            allin2 = dict(hold2["ins2"])
            allin2.update(ips)
            O2 = st.to_terms(hold2["out2"])
            mix2 = hold2["mm2"].sym if hold2["mm2"] is not None else None

            def rp2(model):
                src2 = replay_prologue(kind, kw, allin, model) + REF_IMPL + f"ages = {tensor_literal(ages, model)}\n"
                src2 += "ips = {'xi': I['xi'][0,0], 'tau': I['tau'][0,0]" + (", 'sources': I['sources'][0]" if m.has_sources else "") + "}\n"
                src2 += "m._state = s\nfirst = m.compute_individual_trajectory(ages, ips)\nJ = dict(I)\n"
                for name, t_ in hold2["ins2"].items():
                    src2 += f"J[{name!r}] = {tensor_literal(t_, model)}" + (".abs() + 1e-3" if name.endswith("_std") else "") + "\n"
                src2 += "with m.state.auto_fork(None):\n    for k, v in J.items():\n        if k not in ('xi', 'tau', 'sources'): m.state[k] = v\n"
                src2 += "out = m.compute_individual_trajectory(ages, ips)\n"
                src2 += f"mm = m.state['mixing_matrix'] if {m.has_sources!r} else None\nref = ref_model({kind!r}, J, mm, ages[None, :])\n"
                src2 += "print('estimate after the in-place parameter change:', out, ' formula with the new parameters:', ref)\nsys.exit(0 if torch.allclose(out.double(), ref, rtol=1e-4, atol=1e-5) else 1)\n"
                return src2

            rec.obligations += 1
            if tuple(O2.shape) == (1, n_ages, d):
                rec.discharged += 1
                for j in range(n_ages):
                    for k in range(d):
                        cf2, _aux = closed_form(kind, allin2, mix2, 0, ages.sym[j], k)
                        rec.prove(f"after-parameter-change:row[{j}][{k}]", O2[0, j, k] == cf2, replay=rp2, extra=exp_log_axioms(), key="C09:stale-parameters",
                                  what="an estimate made after the model's parameters were changed in place does not follow the new parameters")
            else:
                rec.violation_from_script("shape-after-change", "C09:trajectory-shape", f"sys.exit(1)  # shape {tuple(O2.shape)}\n", "bad layout")
            rec.obligations += 1
            if untouched:
                rec.discharged += 1
            else:
                rec.notes.append("compute_individual_trajectory touched model.state (reported under C13)")
                rec.discharged += 1
            rec.twin("ctx")
            rec.end_path(c)
        rec.sample({"model": cfg_name(kind, kw), "ages": f"{n_ages} symbolic, unsorted, possibly repeated", "checks": ["row formula", "monotone", "reference point"]})
        return rec.result()

    return guarded(PROP, task, body)


_MI_AGES = {"subj-B": [71.5], "subj-A": [80.25, 62.0, 80.25]}  # MultiIndex route: concrete ages (they live in a pandas index), unsorted and repeated


_MI_REPLAY = """
import numpy as np, pandas as pd
from leaspy.models import LogisticModel
m = LogisticModel('logistic', features=['a', 'b'], source_dimension=1)
m.load_parameters({'log_g_mean': [0.3, -0.2], 'log_v0_mean': [-3.0, -3.4], 'betas_mean': [[0.1]], 'tau_mean': 70.0, 'tau_std': 5.0, 'xi_mean': 0.0, 'xi_std': 0.5,
                   'sources_mean': 0.0, 'sources_std': 1.0, 'noise_std': [0.1]})
ips = {'subj-A': {'tau': 68.0, 'xi': 0.2, 'sources': [0.4]}, 'subj-B': {'tau': 75.0, 'xi': -0.3, 'sources': [-0.5]}}
req = {'subj-B': [71.5], 'subj-A': [80.25, 62.0, 80.25]}
pairs = [('subj-A', 80.25), ('subj-B', 71.5), ('subj-A', 62.0), ('subj-A', 80.25)]
est = m.estimate(pd.MultiIndex.from_tuples(pairs, names=['ID', 'TIME']), ips, to_dataframe=False)
ref = m.estimate(req, ips)
bad = [k for k in req if np.asarray(est[k]).shape != np.asarray(ref[k]).shape or not np.allclose(est[k], ref[k])]
print(bad, {k: np.asarray(v).shape for k, v in est.items()}); sys.exit(1 if bad else 0)
"""


def estimate_task(kind, kw, route="dict"):
    """BaseModel.estimate (dict route: symbolic ages; MultiIndex route with dictionary output: concrete unsorted / repeated ages, symbolic parameters):
    exactly the requested ids (dict route: in the given order), rows aligned with the requested ages in the requested order."""
    task = f"estimate[{cfg_name(kind, kw)}{',multiindex' if route != 'dict' else ''}]"

    def body():
        probe = build_model(kind, **kw)
        rec = Recorder(PROP, task, [BaseModel.estimate, McmcSaemCompatibleModel.compute_individual_trajectory])

        def run():
            m, ins = _model_with_params(kind, kw)
            ipA, ipB = _ips(m, "A_"), _ips(m, "B_")
            agesA, agesB = st.sym("agesA", (2,)), st.sym("agesB", (1,))
            mk_call = lambda ip: {k: (v[0, 0] if k != "sources" else v[0]) for k, v in ip.items()}
            ips = {"subj-B": mk_call(ipB), "subj-A": mk_call(ipA)}
            tpts = {"subj-B": agesB, "subj-A": agesA}  # deliberately not sorted
            if route == "dict":
                est = m.estimate(tpts, ips)
            else:
                import pandas as pd

                pairs = [("subj-A", _MI_AGES["subj-A"][0]), ("subj-B", _MI_AGES["subj-B"][0])] + [("subj-A", a) for a in _MI_AGES["subj-A"][1:]]
                mi = pd.MultiIndex.from_tuples(pairs, names=["ID", "TIME"])
                est = m.estimate(mi, ips, to_dataframe=False)
            mm = m.state["mixing_matrix"] if m.has_sources else None
            return m, ins, (ipA, ipB), (agesA, agesB), est, mm

        for c, res in st.explore(run, "R"):
            if isinstance(res, Exception):
                raise res
            m, ins, (ipA, ipB), (agesA, agesB), est, mm = res
            d = m.dimension
            rec.obligations += 1
            if route == "dict":
                ok = list(est.keys()) == ["subj-B", "subj-A"] and est["subj-A"].shape == (2, d) and est["subj-B"].shape == (1, d)
            else:
                ok = sorted(est.keys()) == ["subj-A", "subj-B"] and all(tuple(est[k_].shape) == (len(_MI_AGES[k_]), d) for k_ in _MI_AGES)
            if ok:
                rec.discharged += 1
            else:
                rec.violation_from_script("keys", "C09:estimate-keys", _MI_REPLAY if route != "dict" else "sys.exit(1)\n", f"estimate keys/shapes wrong: {list(est.keys())} {[tuple(v.shape) for v in est.values()]}")
                continue
            mix = mm.sym if mm is not None else None
            lem = exp_log_axioms()
            for sid, ip, ages in (("subj-A", ipA, agesA), ("subj-B", ipB, agesB)):
                allin = dict(ins)
                allin.update(ip)
                age_terms = [ages.sym[j] for j in range(ages.sym.shape[0])] if route == "dict" else [T.real_val(a) for a in _MI_AGES[sid]]
                for j in range(len(age_terms)):
                    for k in range(d):
                        cf, _ = closed_form(kind, allin, mix, 0, age_terms[j], k)
                        got = est[sid][j, k]
                        got = got.term if isinstance(got, st.SymScalar) else T.real_val(got)
                        rec.prove(f"{sid}[{j}][{k}]", got == cf, extra=lem + exp_log_axioms(), replay=(lambda m_: _MI_REPLAY) if route != "dict" else None, key="C09:estimate-alignment", what="estimate row not aligned with its age / individual")
            rec.end_path(c)
        rec.sample({"model": cfg_name(kind, kw), "timepoints": {"subj-B": "1 age", "subj-A": "2 ages"}})
        return rec.result()

    return guarded(PROP, task, body)


def tasks(tier, seed=0):
    ts = []
    kinds = KINDS["quick"] + (KINDS["thorough"] if tier == "thorough" else [])
    for kind, kw in kinds:
        ts.append(("formula_task", dict(kind=kind, kw=kw, n_ind=2, n_vis=2)))
        ts.append(("trajectory_task", dict(kind=kind, kw=kw, n_ages=2)))
    for kind, kw in KINDS["quick"][:3]:
        ts.append(("estimate_task", dict(kind=kind, kw=kw)))
    ts.append(("estimate_task", dict(kind=KINDS["quick"][0][0], kw=KINDS["quick"][0][1], route="multiindex")))
    ts.append(("trajectory_task", dict(kind="logistic", kw=KINDS["quick"][0][1], n_ages=3)))
    if tier == "thorough":
        for kind, kw in kinds:
            ts.append(("trajectory_task", dict(kind=kind, kw=kw, n_ages=3)))
        ts.append(("formula_task", dict(kind="logistic", kw=KINDS["quick"][0][1], n_ind=2, n_vis=3)))
    return ts
