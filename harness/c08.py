"""C08 — likelihood terms are the negative log-densities of the documented distributions.

Real code executed on symbolic payloads: NormalFamily._nll/_nll_jacobian/_nll_and_jacobian, the
SymbolicDistribution wrappers (get_func_nll / get_func_regularization / .nll / .regularization), MixtureNormalFamily._nll,
BernoulliFamily._nll (torch.distributions.Bernoulli stubbed by an uninterpreted log_prob),
AbstractWeibullRightCensoredFamily.compute_log_survival / compute_log_likelihood_hazard / compute_hazard / _nll and both
_extract_reparametrized_nu.  Oracle: the textbook expression written here with the same abstracted transcendental
functions; obligation = entry-wise provable equality (R) or finiteness/penalty (F, float64).
"""
from __future__ import annotations

import math
from fractions import Fraction

import numpy as np
import torch
import z3

from harness.realmodel import *  # noqa (import order for leaspy)
from leaspy.variables import distributions as D
from leaspy.variables.distributions import (
    BernoulliFamily,
    MixtureNormalFamily,
    Normal,
    NormalFamily,
    WeibullRightCensoredFamily,
    WeibullRightCensoredWithSourcesFamily,
)
from leaspy.constants import constants
from vcheck.common import Recorder, guarded, tensor_literal

PROP = "C08"
META = dict(
    explanation="Real NormalFamily / MixtureNormalFamily / BernoulliFamily / Weibull right-censored family methods are executed on "
    "symbolic tensors in every broadcasting layout used by the models; each output entry is proved equal to the documented "
    "negative log-density (reals, exp/log/pow abstracted consistently on both sides); the early-event penalty is decided in "
    "IEEE float64.",
    bounds="values up to 2x2x2 entries, n<=2 individuals, 1-2 events, 2 clusters; one call per layout",
    outside="compute_predictions (quadrature), sampling, MultivariateNormalFamily, torch.distributions.Bernoulli's own formula (trusted; delegation checked)",
    assumptions=[
        "R-theory results treat floats as reals (statement about formulas, not rounding)",
        "scale/nu/rho > 0 as documented",
        "torch.distributions.Bernoulli.log_prob is trusted (stubbed by an uninterpreted function)",
        "Dataset.event_time is float64 (verified separately by reading Dataset._construct_events' dtype)",
    ],
)

HALF_LOG_2PI = 0.5 * math.log(2 * math.pi)


def _pos(t):
    for x in t.sym.reshape(-1):
        T.assume(x > 0)


def _normal_layouts(tier):
    L = [
        ("obs(n,t,f)|scale()", (2, 2, 2), (2, 2, 2), ()),
        ("obs(n,t,f)|scale(f)", (2, 2, 2), (2, 2, 2), (2,)),
        ("ind(n,1)|loc(1)scale(1)", (2, 1), (1,), (1,)),
        ("ind(n,s)|loc(s)scale()", (2, 2), (2,), ()),
        ("pop(d)|loc(d)scale()", (2,), (2,), ()),
        ("pop(d-1,s)|loc(d-1,s)scale()", (1, 2), (1, 2), ()),
    ]
    if tier == "thorough":
        L += [
            ("obs(3,3,3)|scale(f)", (3, 3, 3), (3, 3, 3), (3,)),
            ("obs(3,2,1)|scale(1)", (3, 2, 1), (3, 2, 1), (1,)),
            ("ind(3,2)|loc(2)scale()", (3, 2), (2,), ()),
            ("pop(3)|loc(3)scale()", (3,), (3,), ()),
            ("pop(2,2)|loc(2,2)scale()", (2, 2), (2, 2), ()),
        ]
    return L


def _normal_replay(entry, xs, locs, scs, weighted):
    def replay(model):
        w = ", weight=torch.ones(%r, dtype=torch.bool)" % (tuple(xs.shape),) if weighted else ""
        return f"""
from leaspy.variables.distributions import NormalFamily, Normal
from leaspy.utils.weighted_tensor import WeightedTensor
import math
x = {tensor_literal(xs, model)}.double(); loc = {tensor_literal(locs, model)}.double(); scale = {tensor_literal(scs, model)}.double().abs() + 1e-3
ref = 0.5*((x-loc)/scale)**2 + torch.log(scale) + 0.5*math.log(2*math.pi)
refj = (x-loc)/scale**2
wx = WeightedTensor(x{w})
outs = {{
 '_nll': NormalFamily._nll(wx, loc, scale).value,
 'nll': NormalFamily.nll(wx, loc, scale).value,
 'regularization': NormalFamily.regularization(x, loc, scale).value,
 'func_nll': Normal('l','s').get_func_nll('v')(v=wx, l=loc, s=scale).value,
 'func_regul': Normal('l','s').get_func_regularization('v')(v=x, l=loc, s=scale).value,
 '_nll_and_jacobian0': NormalFamily._nll_and_jacobian(wx, loc, scale)[0].value,
}}
outj = {{'_nll_jacobian': NormalFamily._nll_jacobian(wx, loc, scale).value, '_nll_and_jacobian1': NormalFamily._nll_and_jacobian(wx, loc, scale)[1].value}}
bad = [k for k, v in outs.items() if not torch.allclose(v, ref.expand_as(v), rtol=1e-5, atol=1e-6)]
bad += [k for k, v in outj.items() if not torch.allclose(v, refj.expand_as(v), rtol=1e-5, atol=1e-6)]
print('entry {entry}: mismatching entry points:', bad)
sys.exit(1 if bad else 0)
"""

    return replay


def normal_task(layout, xshape, locshape, scshape):
    def body():
        rec = Recorder(
            PROP,
            f"normal[{layout}]",
            [NormalFamily._nll, NormalFamily._nll_jacobian, NormalFamily._nll_and_jacobian, D.StatelessDistributionFamily.nll,
             D.StatelessDistributionFamily.regularization, D.SymbolicDistribution.get_func, WeightedTensor],
        )
        st.new_context("R")
        x = st.sym("x", xshape)
        w = st.sym("w", xshape, torch.bool)
        loc = st.sym("loc", locshape)
        sc = st.sym("scale", scshape)
        _pos(sc)
        # the constant: exact rational value of the float32 constant must be within 2^-23 of 1/2 log(2 pi)
        c = Fraction(float(NormalFamily.nll_constant_standard))
        rec.obligations += 1
        if abs(c - Fraction(HALF_LOG_2PI)) <= Fraction(1, 2**23):
            rec.discharged += 1
        else:
            rec.violation_from_script(
                "constant",
                "C08:normal-constant",
                "from leaspy.variables.distributions import NormalFamily\nimport math\n"
                "sys.exit(1 if abs(float(NormalFamily.nll_constant_standard)-0.5*math.log(2*math.pi))>2**-23 else 0)\n",
                "nll_constant_standard is not 1/2 log(2 pi)",
            )
        cterm = T.real_val(Fraction(HALF_LOG_2PI))
        # all documented entry points
        wx = WeightedTensor(x, w)
        outs = {
            "_nll": NormalFamily._nll(wx, loc, sc),
            "nll": NormalFamily.nll(wx, loc, sc),
            "regularization(weighted)": NormalFamily.regularization(wx, loc, sc),
            "regularization(tensor)": NormalFamily.regularization(x, loc, sc),
            "func_nll": Normal("l", "s").get_func_nll("v")(v=wx, l=loc, s=sc),
            "func_regul": Normal("l", "s").get_func_regularization("v")(v=x, l=loc, s=sc),
            "_nll_and_jacobian[0]": NormalFamily._nll_and_jacobian(wx, loc, sc)[0],
        }
        jac = {
            "_nll_jacobian": NormalFamily._nll_jacobian(wx, loc, sc),
            "_nll_and_jacobian[1]": NormalFamily._nll_and_jacobian(wx, loc, sc)[1],
        }
        X = x.sym
        LOC = np.broadcast_to(loc.sym, xshape)
        SC = np.broadcast_to(sc.sym, xshape)
        tol = Fraction(1, 2**22)
        for name, o in outs.items():
            assert tuple(o.shape) == tuple(xshape), (name, o.shape)
            for idx in np.ndindex(*xshape):
                z = (X[idx] - LOC[idx]) / SC[idx]
                expect = z * z / 2 + T.t_log(SC[idx]) + cterm
                got = o.value.sym[idx]
                goal = z3.And(got - expect <= T.real_val(tol), expect - got <= T.real_val(tol))
                rec.prove(f"{name}{list(idx)}", goal, replay=_normal_replay(idx, x, loc, sc, "tensor" not in name and "regul" not in name), what="Normal nll != 1/2 z^2 + log(scale) + 1/2 log(2pi)")
            # weights carried unchanged
            rec.obligations += 1
            if "tensor" in name or name == "func_regul":
                ok = o.weight is None
            else:
                ok = o.weight is not None and all(a.eq(b) for a, b in zip(o.weight.sym.reshape(-1), w.sym.reshape(-1)))
            if ok:
                rec.discharged += 1
            else:
                rec.violation_from_script(f"{name}:weights", f"C08:normal-weights:{name}", _normal_replay((), x, loc, sc, True)(None) if False else "sys.exit(1)\n", "weights not preserved")
        for name, o in jac.items():
            for idx in np.ndindex(*xshape):
                expect = (X[idx] - LOC[idx]) / (SC[idx] * SC[idx])
                rec.prove(f"{name}{list(idx)}", o.value.sym[idx] == expect, replay=_normal_replay(idx, x, loc, sc, True), what="Normal nll jacobian != (x-loc)/scale^2")
        rec.twin("assumptions")
        rec.sample({"layout": layout, "x": str(xshape), "loc": str(locshape), "scale": str(scshape), "entry_points": list(outs) + list(jac)})
        rec.end_path()
        return rec.result()

    return guarded(PROP, f"normal[{layout}]", body)


# ------------------------------------------------------------------------------------------------------------------
# Weibull
# ------------------------------------------------------------------------------------------------------------------
def _weibull_replay(family, xs, ws, nu, rho, xi, tau, shifts):
    def replay(model):
        sh = f", {tensor_literal(shifts, model)}.double()" if shifts is not None else ""
        return f"""
from leaspy.variables.distributions import {family}
from leaspy.utils.weighted_tensor import WeightedTensor
x = {tensor_literal(xs, model)}.double(); w = {tensor_literal(ws, model)}
nu = {tensor_literal(nu, model)}.double().abs()+1e-2; rho = {tensor_literal(rho, model)}.double().abs()+1e-2
xi = {tensor_literal(xi, model)}.double(); tau = {tensor_literal(tau, model)}.double()
extra = ({sh.lstrip(', ')},) if {shifts is not None!r} else ()
got = {family}._nll(WeightedTensor(x, w), nu, rho, xi, tau, *extra).value
nur = nu*torch.exp(-xi) if not extra else nu*torch.exp(-(xi + extra[0]/rho))
t = x - tau
pos = t > 0
surv = (t.clamp(min=0)/nur)**rho
haz = torch.log((rho/nur)*(t.clamp(min=1e-300)/nur)**(rho-1))
ref = torch.where(pos, surv - w.double()*haz, torch.where(w, torch.full_like(surv, 1e307), surv))
ok = torch.allclose(got, ref.expand_as(got), rtol=1e-6, atol=1e-9) and bool(torch.isfinite(got).all())
print('got', got, 'ref', ref)
sys.exit(0 if ok else 1)
"""

    return replay


def weibull_task(family, n, e, with_sources):
    fam = WeibullRightCensoredWithSourcesFamily if with_sources else WeibullRightCensoredFamily
    task = f"weibull[{fam.__name__},n={n},e={e}]"

    def body():
        rec = Recorder(
            PROP,
            task,
            [fam._nll, fam.compute_log_survival, fam.compute_log_likelihood_hazard, fam.compute_hazard, fam._extract_reparametrized_nu,
             fam._extract_reparametrized_event, fam._extract_reparametrized_parameters],
        )

        def run():
            x = st.sym("x", (n, e), torch.float64)
            w = st.sym("w", (n, e), torch.bool)
            nu = st.sym("nu", (e,), torch.float64)
            rho = st.sym("rho", (e,), torch.float64)
            xi = st.sym("xi", (n, 1), torch.float64)
            tau = st.sym("tau", (n, 1), torch.float64)
            _pos(nu)
            _pos(rho)
            extra = ()
            if with_sources:
                shifts = st.sym("shifts", (n, e), torch.float64)
                extra = (shifts,)
            # event strictly after the reference time for the closed form
            for i in range(n):
                for k in range(e):
                    T.assume(x.sym[i, k] - tau.sym[i, 0] > 0)
            out = fam._nll(WeightedTensor(x, w), nu, rho, xi, tau, *extra)
            haz = fam.compute_hazard(WeightedTensor(x, w), nu, rho, xi, tau, *extra)
            return x, w, nu, rho, xi, tau, extra, out, haz

        for c, res in st.explore(run, "R"):
            if isinstance(res, Exception):
                raise res
            x, w, nu, rho, xi, tau, extra, out, haz = res
            assert tuple(out.shape) == (n, e)
            rec.obligations += 1
            if out.weight is None:
                rec.discharged += 1
            for i in range(n):
                for k in range(e):
                    t = x.sym[i, k] - tau.sym[i, 0]
                    if with_sources:
                        nur = nu.sym[k] * T.t_exp(T.mk_neg(xi.sym[i, 0] + T.real_val(1) / rho.sym[k] * extra[0].sym[i, k]))
                    else:
                        nur = T.t_exp(T.mk_neg(xi.sym[i, 0])) * nu.sym[k]
                    surv = T.t_pow(t / nur, rho.sym[k])
                    hz = rho.sym[k] / nur * T.t_pow(t / nur, rho.sym[k] - 1)
                    expect = z3.If(w.sym[i, k], surv - T.t_log(hz), surv)
                    rp = _weibull_replay(fam.__name__, x, w, nu, rho, xi, tau, extra[0] if extra else None)
                    rec.prove(f"nll[{i},{k}]", out.value.sym[i, k] == expect, replay=rp, what="Weibull nll != (t/nu')^rho - delta*log hazard")
                    rec.prove(f"hazard[{i},{k}]", haz.sym[i, k] == hz, replay=rp, what="hazard != (rho/nu')(t/nu')^(rho-1)")
            rec.twin("t>0")
            rec.end_path(c)
        rec.sample({"family": fam.__name__, "n": n, "events": e, "case": "t > 0 closed form"})
        return rec.result()

    return guarded(PROP, task, body)


def weibull_penalty_task(with_sources):
    """F (float64): event at/before the reference time -> finite prohibitive penalty, never NaN/inf."""
    fam = WeibullRightCensoredWithSourcesFamily if with_sources else WeibullRightCensoredFamily
    task = f"weibull-penalty[{fam.__name__}]"

    def body():
        rec = Recorder(PROP, task, [fam._nll, fam.compute_log_survival, fam.compute_log_likelihood_hazard])
        D64 = torch.float64

        def fin(t):
            return z3.And(*[z3.Not(z3.Or(z3.fpIsNaN(x), z3.fpIsInf(x))) for x in t.sym.reshape(-1)])

        NUR = []
        real_nu = fam.__dict__["_extract_reparametrized_nu"].__func__

        def recording_nu(*a):
            r = real_nu(*a)
            NUR.append(r)
            return r

        def run():
            x = st.sym("x", (1, 1), D64)
            w = st.sym("w", (1, 1), torch.bool)
            # nu' is a function of nu, xi (exp abstracted): make the reparametrised scale itself the symbolic input
            nu = st.sym("nu", (1,), D64)
            rho = st.sym("rho", (1,), D64)
            xi = st.sym("xi", (1, 1), D64)
            tau = st.sym("tau", (1, 1), D64)
            extra = (st.sym("shifts", (1, 1), D64),) if with_sources else ()
            for t in (x, nu, rho, xi, tau) + extra:
                T.assume(fin(t))
            T.assume(z3.fpGT(rho.sym[0], z3.FPVal(0.0, T.F64)))
            T.assume(z3.fpGT(nu.sym[0], z3.FPVal(0.0, T.F64)))
            NUR.clear()
            fam._extract_reparametrized_nu = staticmethod(recording_nu)
            try:
                out = fam._nll(WeightedTensor(x, w), nu, rho, xi, tau, *extra)
            finally:
                fam._extract_reparametrized_nu = staticmethod(real_nu)
            return x, w, nu, rho, xi, tau, extra, out

        for c, res in st.explore(run, "F"):
            if isinstance(res, Exception):
                raise res
            x, w, nu, rho, xi, tau, extra, out = res
            o = out.value.sym[0, 0]
            t = z3.fpSub(T.RNE, x.sym[0, 0], tau.sym[0, 0])
            early = z3.fpLEQ(t, z3.FPVal(0.0, T.F64))
            # documented precondition "finite non-zero nu'": nu' is what _extract_reparametrized_nu returned on this path;
            # it is recorded by wrapping that (real) function below.
            side = []
            for nur in NUR:
                for q in nur.sym.reshape(-1):
                    side += [z3.Not(z3.fpIsNaN(q)), z3.Not(z3.fpIsInf(q)), z3.fpGT(q, z3.FPVal(0.0, T.F64))]
            big = z3.FPVal(1e300, T.F64)
            wit = [(x, 1.0), (tau, 2.0), (nu, 1.0), (rho, 1.5), (xi, 0.0)] + [(t_, 0.0) for t_ in extra]
            pins = [wit + [(w, True)], wit + [(w, False)], [(x, 2.0), (tau, 2.0), (nu, 3.0), (rho, 0.5), (xi, 1.0), (w, True)] + [(t_, 1.0) for t_ in extra]]

            def rp(model):
                return f"""
from leaspy.variables.distributions import {fam.__name__}
from leaspy.utils.weighted_tensor import WeightedTensor
x = {tensor_literal(x, model)}; w = {tensor_literal(w, model)}; nu = {tensor_literal(nu, model)}; rho = {tensor_literal(rho, model)}
xi = {tensor_literal(xi, model)}; tau = {tensor_literal(tau, model)}
extra = ({tensor_literal(extra[0], model) if extra else ''}{',' if extra else ''})
def check(x, w, nu, rho, xi, tau, extra):
    got = {fam.__name__}._nll(WeightedTensor(x, w), nu, rho, xi, tau, *extra).value
    bad = (not bool(torch.isfinite(got).all())) or (bool(w.all()) and bool((got < 1e300).any()))
    if bad: print('nll for early event:', got, 'observed:', w, 'x', x, 'tau', tau, 'nu', nu, 'rho', rho, 'xi', xi)
    return bad
if check(x, w, nu, rho, xi, tau, extra): sys.exit(1)
# the solver's model interprets the abstracted power function freely: also try the corner points of the early-event region
# (event exactly at / strictly before the reference time; shape below, at and above 1, integer and not)
D = torch.float64
for dt in (0.0, -1.5, -0.25):
    for r in (0.5, 1.0, 1.5, 2.0, 3.0):
        for obs in (True, False):
            for n in (1.0, 3.0):
                args = (torch.tensor([[70.0 + dt]], dtype=D), torch.tensor([[obs]]), torch.tensor([n], dtype=D), torch.tensor([r], dtype=D),
                        torch.tensor([[0.2]], dtype=D), torch.tensor([[70.0]], dtype=D), tuple(torch.zeros_like(e) for e in extra))
                if check(*args): sys.exit(1)
sys.exit(0)
"""

            rec.prove("early:not-nan-not-inf", z3.Implies(early, z3.Not(z3.Or(z3.fpIsNaN(o), z3.fpIsInf(o)))), extra=side, replay=rp, timeout_ms=240000, pins=pins, what="early event gives NaN/inf")
            rec.prove("early:observed=>prohibitive", z3.Implies(z3.And(early, w.sym[0, 0]), z3.fpGEQ(o, big)), extra=side, replay=rp, timeout_ms=240000, pins=pins, what="early observed event not penalised")
            rec.prove("early:censored=>survival-term-only(zero)", z3.Implies(z3.And(early, z3.Not(w.sym[0, 0])), z3.fpIsZero(o)), extra=side, replay=rp, timeout_ms=240000, pins=pins, what="early censored event does not contribute its survival term only")
            rec.twin("early-feasible", extra=side + [early], timeout_ms=60000, witness=wit)
            rec.end_path(c)
        rec.sample({"family": fam.__name__, "case": "t <= 0 penalty, float64", "INFINITY": constants.INFINITY})
        # dtype of Dataset.event_time (assumption of the F obligation) read from the current source
        import inspect
        from leaspy.io.data.dataset import Dataset

        src = inspect.getsource(Dataset._construct_events)
        rec.obligations += 1
        if "torch.double" in src or "float64" in src:
            rec.discharged += 1
        else:
            rec.inconclusive.append("Dataset._construct_events no longer builds float64 event times: penalty obligation's dtype assumption does not hold")
        return rec.result()

    return guarded(PROP, task, body)


# ------------------------------------------------------------------------------------------------------------------
# Bernoulli (delegation) and mixture
# ------------------------------------------------------------------------------------------------------------------
def bernoulli_task():
    task = "bernoulli-delegation"

    def body():
        rec = Recorder(PROP, task, [BernoulliFamily, D.StatelessDistributionFamilyFromTorchDistribution._nll])
        st.new_context("R")
        x = st.sym("x", (2, 2, 2))
        w = st.sym("w", (2, 2, 2), torch.bool)
        p = st.sym("p", (2, 2, 2))
        calls = []

        class FakeBernoulli:
            def __init__(self, probs=None, logits=None, validate_args=None):
                calls.append(("init", probs, logits))
                self.probs = probs

            def log_prob(self, value):
                calls.append(("log_prob", value))
                P, V = st.to_terms(self.probs), st.to_terms(value)
                return st.mk(st.vmap(lambda a, b: T.apply_fn("bernoulli_logp", (a, b)), P, V), torch.float32)

        orig = BernoulliFamily.dist_factory
        BernoulliFamily.dist_factory = FakeBernoulli
        rec.stubs.append("torch.distributions.Bernoulli -> uninterpreted log_prob(p, x)")
        try:
            out = BernoulliFamily._nll(WeightedTensor(x, w), p)
            out2 = BernoulliFamily.nll(WeightedTensor(x, w), p)
        finally:
            BernoulliFamily.dist_factory = orig

        def rp(model):
            return f"""
from leaspy.variables.distributions import BernoulliFamily
from leaspy.utils.weighted_tensor import WeightedTensor
x = ({tensor_literal(x, model)} > 0).float(); p = torch.sigmoid({tensor_literal(p, model)}); w = {tensor_literal(w, model)}
o = BernoulliFamily._nll(WeightedTensor(x, w), p)
ref = -(x*torch.log(p) + (1-x)*torch.log(1-p))
ok = torch.allclose(o.value, ref, rtol=1e-4, atol=1e-5) and o.weight is not None and torch.equal(o.weight, w)
sys.exit(0 if ok else 1)
"""

        for name, o in (("_nll", out), ("nll", out2)):
            for idx in np.ndindex(2, 2, 2):
                expect = -T.apply_fn("bernoulli_logp", (p.sym[idx], x.sym[idx]))
                rec.prove(f"{name}{list(idx)}", o.value.sym[idx] == expect, replay=rp, what="Bernoulli nll != -log_prob(loc, x)")
            rec.obligations += 1
            if o.weight is not None and all(a.eq(b) for a, b in zip(o.weight.sym.reshape(-1), w.sym.reshape(-1))):
                rec.discharged += 1
            else:
                rec.violation_from_script(f"{name}:weights", "C08:bernoulli-weights", rp(_ZeroModel()), "weights dropped")
        rec.sample({"case": "Bernoulli delegation", "calls": [c[0] for c in calls]})
        rec.end_path()
        return rec.result()

    return guarded(PROP, task, body)


def bernoulli_f32_task():
    """IEEE float32: the Bernoulli term is a number >= 0 for every probability in [0, 1] *including the saturated values 0 and 1*
    (a curve that rounds to exactly 1.0 far past onset), and ~0 for an observation that agrees with a saturated probability.
    torch.distributions.Bernoulli.log_prob is kept abstract under its real contract (it clamps the probability away from 0 and 1)."""
    task = "bernoulli-saturated[F32]"

    def body():
        rec = Recorder(PROP, task, [BernoulliFamily, D.StatelessDistributionFamilyFromTorchDistribution._nll])
        st.new_context("F")
        f32 = torch.float32
        x = st.sym("x", (2,), f32)
        w = st.sym("w", (2,), torch.bool)
        p = st.sym("p", (2,), f32)
        srt = x.sym[0].sort()
        zero, one, tiny = z3.FPVal(0.0, srt), z3.FPVal(1.0, srt), z3.FPVal(1e-6, srt)
        for i in range(2):
            T.assume(z3.Or(z3.fpEQ(x.sym[i], zero), z3.fpEQ(x.sym[i], one)))
            T.assume(z3.And(z3.fpGEQ(p.sym[i], zero), z3.fpLEQ(p.sym[i], one)))

        class FakeBernoulli:
            def __init__(self, probs=None, logits=None, validate_args=None):
                self.probs = probs

            def log_prob(self, value):
                P, V = st.to_terms(self.probs), st.to_terms(value)

                def one_(a, b):
                    k = T.apply_fn("bernoulli_logp", (a, b))
                    dom = z3.And(z3.fpGEQ(a, zero), z3.fpLEQ(a, one), z3.Or(z3.fpEQ(b, zero), z3.fpEQ(b, one)))
                    agree = z3.Or(z3.And(z3.fpEQ(a, one), z3.fpEQ(b, one)), z3.And(z3.fpEQ(a, zero), z3.fpEQ(b, zero)))
                    # contract of the real log_prob on its domain: a non-positive number, ~0 (|.| <= 1.2e-7) when the observation agrees with a saturated probability
                    T.ctx().axioms.append(z3.Implies(dom, z3.And(z3.Not(z3.fpIsNaN(k)), z3.fpLEQ(k, zero))))
                    T.ctx().axioms.append(z3.Implies(z3.And(dom, agree), z3.fpGEQ(k, z3.fpNeg(tiny))))
                    return k

                return st.mk(st.vmap(one_, P, V), f32)

        orig = BernoulliFamily.dist_factory
        BernoulliFamily.dist_factory = FakeBernoulli
        rec.stubs.append("torch.distributions.Bernoulli.log_prob -> uninterpreted, under its contract on [0,1] x {0,1}: not NaN, <= 0, >= -1e-6 when the observation agrees with a saturated probability")
        try:
            out = BernoulliFamily._nll(WeightedTensor(x, w), p)
        finally:
            BernoulliFamily.dist_factory = orig

        def rp(model):
            return f"""
from leaspy.variables.distributions import BernoulliFamily
from leaspy.utils.weighted_tensor import WeightedTensor
x = {tensor_literal(x, model)}; p = {tensor_literal(p, model)}; w = {tensor_literal(w, model)}
o = BernoulliFamily._nll(WeightedTensor(x, w), p).value
agree = ((p == 1) & (x == 1)) | ((p == 0) & (x == 0))
bad = torch.isnan(o) | (o < 0) | (agree & (o > 1e-6))
print('x', x, 'p', p, 'nll', o); sys.exit(1 if bool(bad.any()) else 0)
"""

        O = st.to_terms(out.value)
        for i in range(2):
            agree = z3.Or(z3.And(z3.fpEQ(p.sym[i], one), z3.fpEQ(x.sym[i], one)), z3.And(z3.fpEQ(p.sym[i], zero), z3.fpEQ(x.sym[i], zero)))
            rec.prove(f"number[{i}]", z3.And(z3.Not(z3.fpIsNaN(O[i])), z3.fpGEQ(O[i], zero)), replay=rp, key="C08:bernoulli-saturated", timeout_ms=60000,
                      what="the Bernoulli term is NaN / negative for a probability in [0,1] (saturated 0 or 1 included)")
            rec.prove(f"agreeing-saturated[{i}]", z3.Implies(agree, z3.fpLEQ(O[i], tiny)), replay=rp, key="C08:bernoulli-saturated", timeout_ms=60000,
                      what="an observation that agrees with a saturated probability does not get a (numerically) zero term")
        rec.twin("ctx")
        rec.sample({"case": "Bernoulli, float32, p in [0,1] incl. 0 and 1, x in {0,1}"})
        rec.end_path()
        return rec.result()

    return guarded(PROP, task, body)


class _ZeroModel:
    def eval(self, t, model_completion=True):
        s = t.sort()
        if s == z3.BoolSort():
            return z3.BoolVal(True)
        if s == z3.IntSort():
            return z3.IntVal(1)
        if s == z3.RealSort():
            return z3.RealVal("1/2")
        return z3.FPVal(0.5, s)


def mixture_task():
    task = "mixture-normal"

    def body():
        rec = Recorder(PROP, task, [MixtureNormalFamily._nll])
        st.new_context("R")
        n, k = 2, 2
        # layout used by the mixture model for individual variables: x (n,1), loc (k,), scale (k,)
        x = st.sym("x", (n, 1))
        loc = st.sym("loc", (k,))
        sc = st.sym("scale", (k,))
        probs = st.sym("probs", (k,))
        _pos(sc)
        out = MixtureNormalFamily._nll(WeightedTensor(x), loc, sc, probs)
        cterm = T.real_val(Fraction(float(MixtureNormalFamily.nll_constant_standard)))
        assert tuple(out.shape) == (n, k), out.shape

        def rp(model):
            return f"""
from leaspy.variables.distributions import MixtureNormalFamily
from leaspy.utils.weighted_tensor import WeightedTensor
import math
x = {tensor_literal(x, model)}.double(); loc = {tensor_literal(loc, model)}.double(); scale = {tensor_literal(sc, model)}.double().abs()+1e-3
o = MixtureNormalFamily._nll(WeightedTensor(x), loc, scale, torch.tensor([0.5,0.5])).value
ref = 0.5*((x - loc[None,:])/scale[None,:])**2 + torch.log(scale)[None,:] + 0.5*math.log(2*math.pi)
sys.exit(0 if torch.allclose(o, ref, rtol=1e-5, atol=1e-6) else 1)
"""

        for i in range(n):
            for c in range(k):
                z = (x.sym[i, 0] - loc.sym[c]) / sc.sym[c]
                expect = z * z / 2 + T.t_log(sc.sym[c]) + cterm
                rec.prove(f"nll[{i},{c}]", out.value.sym[i, c] == expect, replay=rp, what="per-cluster Normal nll")
        rec.sample({"case": "mixture per-cluster nll", "x": "(2,1)", "clusters": 2})
        rec.end_path()
        return rec.result()

    return guarded(PROP, task, body)


def tasks(tier, seed=0):
    ts = [("normal_task", dict(layout=l, xshape=a, locshape=b, scshape=c)) for (l, a, b, c) in _normal_layouts(tier)]
    ts += [("weibull_task", dict(family="w", n=2, e=1, with_sources=False)), ("weibull_task", dict(family="ws", n=2, e=1, with_sources=True))]
    ts += [("weibull_task", dict(family="w", n=2, e=2, with_sources=False)), ("weibull_task", dict(family="ws", n=2, e=2, with_sources=True))]
    ts += [("weibull_penalty_task", dict(with_sources=False)), ("weibull_penalty_task", dict(with_sources=True))]
    ts += [("bernoulli_task", {}), ("bernoulli_f32_task", {}), ("mixture_task", {})]
    if tier == "thorough":
        ts += [("weibull_task", dict(family="w", n=3, e=2, with_sources=False)), ("weibull_task", dict(family="ws", n=2, e=3, with_sources=True)),
               ("weibull_task", dict(family="w", n=3, e=1, with_sources=False))]
    return ts
