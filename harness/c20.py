"""C20 — benchmark models implement their documented estimators (constant model; the LME half is not applicable, see DESIGN.md).

Real ConstantPredictionAlgorithm._get_feature_values / _get_individual_last_values run on a numpy-protocol symbolic array (float64 terms,
possibly NaN) with symbolic, pairwise distinct, unsorted ages - Python's `sorted` forks on the symbolic comparisons, so every ordering of
the visits is a path; ConstantModel.compute_individual_trajectory runs with symbolic individual parameters (torch.tensor factory stub).
"""
from __future__ import annotations

import itertools

import numpy as np
import torch
import z3

from harness.realmodel import *  # noqa
from leaspy.algo.personalize.constant_prediction_algo import ConstantPredictionAlgorithm, PredictionType
from leaspy.models.constant import ConstantModel
from symtorch.numpy_payload import SymNd, sym_nd
from vcheck.common import Recorder, guarded, model_value

PROP = "C20"
META = dict(
    explanation="For every ordering of up to 3 visits (ages symbolic and distinct), every float64 value incl. NaN and entirely-NaN features, the real "
    "_get_feature_values returns: the row at the greatest age (last); per feature the value at the greatest age with a non-NaN value, NaN iff all NaN "
    "(last-known); numpy's nan-max / nan-mean along visits (max / mean: the delegation and the axis are what is checked); the constant model returns that "
    "vector at every requested age.",
    bounds="visits <= 3, features <= 2, requested ages <= 3",
    outside="the LME benchmark (statsmodels MixedLM / numpy.linalg): library code, not symbolically executable - not claimed",
    assumptions=["np.nanmax / np.nanmean semantics are modelled in the harness (trusted specification of numpy)", "ages pairwise distinct"],
)


class _Host:
    _get_feature_values = ConstantPredictionAlgorithm._get_feature_values
    _get_individual_last_values = ConstantPredictionAlgorithm._get_individual_last_values


def _replay(ptype, n, d):
    return f"""
import numpy as np, itertools
from leaspy.algo.personalize.constant_prediction_algo import ConstantPredictionAlgorithm, PredictionType
class H:
    _get_feature_values = ConstantPredictionAlgorithm._get_feature_values
    _get_individual_last_values = ConstantPredictionAlgorithm._get_individual_last_values
h = H(); h.prediction_type = PredictionType({ptype!r})
bad = []
nan = float('nan')
pal = [nan, 0.25, -1.5, 3.0]
for ages in itertools.permutations([70.5, 61.0, 82.25][:{n}]):
    for flat in itertools.product(pal, repeat={n * d}):
        v = np.array(flat, dtype=float).reshape({n}, {d}); t = np.array(ages)
        import warnings
        with warnings.catch_warnings():
            warnings.simplefilter('ignore'); got = np.asarray(h._get_feature_values(t, v), dtype=float)
        exp = np.full({d}, nan)
        order = np.argsort(-t)
        for k in range({d}):
            col = v[order, k]
            if {ptype!r} == 'last': exp[k] = col[0]
            elif {ptype!r} == 'last-known':
                nn = col[~np.isnan(col)]; exp[k] = nn[0] if len(nn) else nan
            elif {ptype!r} == 'max':
                nn = col[~np.isnan(col)]; exp[k] = nn.max() if len(nn) else nan
            else:
                nn = col[~np.isnan(col)]; exp[k] = nn.mean() if len(nn) else nan
        if not np.allclose(got, exp, equal_nan=True): bad.append((ages, v.tolist(), got.tolist(), exp.tolist())); break
    if bad: break
print(bad[:1]); sys.exit(1 if bad else 0)
"""


def prediction_task(ptype, n, d):
    task = f"prediction[{ptype},visits={n},features={d}]"

    def body():
        rec = Recorder(PROP, task, [ConstantPredictionAlgorithm._get_feature_values, ConstantPredictionAlgorithm._get_individual_last_values])
        script = _replay(ptype, n, d)
        hold = {}

        def run():
            ages = sym_nd("age", (n,))
            vals = sym_nd("v", (n, d))
            for i, j in itertools.combinations(range(n), 2):
                T.assume(z3.Not(z3.fpEQ(ages.a[i], ages.a[j])))
            for i in range(n):
                T.assume(z3.Not(z3.Or(z3.fpIsNaN(ages.a[i]), z3.fpIsInf(ages.a[i]))))
            h = _Host()
            h.prediction_type = PredictionType(ptype)
            hold.update(ages=ages, vals=vals)
            out = h._get_individual_last_values(ages, vals, features=[f"f{k}" for k in range(d)])
            return out

        for c, res in st.explore(run, "F"):
            rec.end_path(c)
            if isinstance(res, Exception):
                raise res
            ages, vals = hold["ages"], hold["vals"]
            rec.obligations += 1
            if list(res.keys()) == [f"f{k}" for k in range(d)]:
                rec.discharged += 1
            else:
                rec.violation_from_script("keys", "C20:keys", script, "result not keyed by the features in order")
                continue
            for k in range(d):
                got = res[f"f{k}"]
                got = got.term if isinstance(got, st.SymScalar) else T.const_of(float(got), torch.float64)
                col = [vals.a[j, k] for j in range(n)]
                A = [ages.a[j] for j in range(n)]
                if ptype == "last":
                    for j in range(n):
                        latest = z3.And(*[z3.fpGT(A[j], A[i]) for i in range(n) if i != j]) if n > 1 else z3.BoolVal(True)
                        rec.prove(f"last[f{k}]@visit{j}", z3.Implies(latest, T.same_value(got, col[j])), replay=lambda m_: script, key="C20:last", what="`last` is not the value at the greatest age")
                elif ptype == "last-known":
                    for j in range(n):
                        cond = z3.And(z3.Not(z3.fpIsNaN(col[j])), *[z3.Or(z3.fpIsNaN(col[i]), z3.fpLT(A[i], A[j])) for i in range(n) if i != j])
                        rec.prove(f"last-known[f{k}]@visit{j}", z3.Implies(cond, T.same_value(got, col[j])), replay=lambda m_: script, key="C20:last-known", what="`last-known` is not the value at the greatest age with a non-missing value")
                    rec.prove(f"last-known[f{k}]:all-missing", z3.Implies(z3.And(*[z3.fpIsNaN(x) for x in col]), z3.fpIsNaN(got)), replay=lambda m_: script, key="C20:last-known", what="feature entirely missing does not give NaN")
                elif ptype == "max":
                    some = z3.Or(*[z3.Not(z3.fpIsNaN(x)) for x in col])
                    rec.prove(f"max[f{k}]:upper", z3.Implies(some, z3.And(z3.Not(z3.fpIsNaN(got)), *[z3.Or(z3.fpIsNaN(x), z3.fpGEQ(got, x)) for x in col])), replay=lambda m_: script, key="C20:max", what="`max` is not an upper bound of the observed values")
                    rec.prove(f"max[f{k}]:attained", z3.Implies(some, z3.Or(*[z3.And(z3.Not(z3.fpIsNaN(x)), z3.fpEQ(got, x)) for x in col])), replay=lambda m_: script, key="C20:max", what="`max` is not one of the observed values")
                    rec.prove(f"max[f{k}]:all-missing", z3.Implies(z3.Not(some), z3.fpIsNaN(got)), replay=lambda m_: script, key="C20:max", what="feature entirely missing does not give NaN")
                else:
                    s = z3.FPVal(0.0, T.F64)
                    cnt = z3.FPVal(0.0, T.F64)
                    for x in col:
                        s = z3.If(z3.fpIsNaN(x), s, z3.fpAdd(T.RNE, s, x))
                        cnt = z3.If(z3.fpIsNaN(x), cnt, z3.fpAdd(T.RNE, cnt, z3.FPVal(1.0, T.F64)))
                    rec.prove(f"mean[f{k}]", T.same_value(got, z3.fpDiv(T.RNE, s, cnt)), replay=lambda m_: script, key="C20:mean", what="`mean` is not the mean of the observed values (visit order)")
            if rec.paths == 1:
                rec.sample({"prediction_type": ptype, "visits": n, "features": d, "ages": "symbolic distinct, any order", "values": "float64 incl. NaN"})
        return rec.result()

    return guarded(PROP, task, body)


def trajectory_task(n_ages, d):
    task = f"constant-trajectory[ages={n_ages},features={d}]"

    def body():
        rec = Recorder(PROP, task, [ConstantModel.compute_individual_trajectory])
        st.new_context("F")
        m = ConstantModel("constant", features=[f"f{k}" for k in range(d)])
        vals = st.sym("ip", (d,), torch.float64)
        ip = {f"f{k}": st.SymScalar(vals.sym[k], torch.float64) for k in range(d)}
        ages = [60.0 + i for i in range(n_ages)]
        saved = torch.tensor

        def sym_tensor(data, dtype=None, **kw):
            arr = np.array(data, dtype=object)
            out = np.empty(arr.shape, dtype=object)
            for idx in np.ndindex(*arr.shape):
                x = arr[idx]
                out[idx] = T.cast(x.term, dtype or torch.float32, torch.float64) if isinstance(x, st.SymScalar) else T.const_of(float(x), dtype or torch.float32)
            return st.mk(out, dtype or torch.float32)

        torch.tensor = sym_tensor
        rec.stubs.append("torch.tensor -> symbolic factory (nested lists of symbolic scalars)")
        try:
            out = m.compute_individual_trajectory(ages, ip)
        finally:
            torch.tensor = saved
        script = f"""
from leaspy.models.constant import ConstantModel
m = ConstantModel('constant', features={[f'f{k}' for k in range(d)]!r})
ip = {{f'f{{k}}': 0.125 * (k + 1) for k in range({d})}}
out = m.compute_individual_trajectory({ages!r}, ip)
exp = torch.tensor([[[0.125 * (k + 1) for k in range({d})]] * {n_ages}], dtype=torch.float32)
print(out); sys.exit(0 if (tuple(out.shape) == (1, {n_ages}, {d}) and torch.equal(out, exp)) else 1)
"""
        rec.obligations += 1
        if tuple(out.shape) == (1, n_ages, d):
            rec.discharged += 1
            O = st.to_terms(out)
            for j in range(n_ages):
                for k in range(d):
                    rec.prove(f"traj[{j}][{k}]", T.same_value(O[0, j, k], T.cast(vals.sym[k], torch.float32, torch.float64)), replay=lambda m_: script, key="C20:trajectory", what="constant trajectory is not the stored vector at every requested age")
        else:
            rec.violation_from_script("shape", "C20:trajectory-shape", script, f"shape {tuple(out.shape)}")
        rec.sample({"ages": ages, "features": d})
        rec.end_path()
        return rec.result()

    return guarded(PROP, task, body)


def tasks(tier, seed=0):
    ts = []
    for p in ("last", "last-known", "max", "mean"):
        ts.append(("prediction_task", dict(ptype=p, n=3, d=2)))
        ts.append(("prediction_task", dict(ptype=p, n=1, d=1)))
        if tier == "thorough":
            ts.append(("prediction_task", dict(ptype=p, n=2, d=2)))
            ts.append(("prediction_task", dict(ptype=p, n=4, d=1)))
    ts.append(("trajectory_task", dict(n_ages=3, d=2)))
    return ts
