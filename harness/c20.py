"""C20 — benchmark models implement their documented estimators (constant model; the LME half is not applicable, see DESIGN.md).

Real ConstantPredictionAlgorithm._get_feature_values / _get_individual_last_values run on a numpy-protocol symbolic array (float64 terms,
possibly NaN) with symbolic, pairwise distinct, unsorted ages - Python's `sorted` forks on the symbolic comparisons, so every ordering of
the visits is a path; ConstantModel.compute_individual_trajectory runs with symbolic individual parameters (torch.tensor factory stub).
"""
from __future__ import annotations

import itertools

import numpy as np
import torch
import z3

from harness.realmodel import *  # noqa
from leaspy.algo.personalize.constant_prediction_algo import ConstantPredictionAlgorithm, PredictionType
from leaspy.models.constant import ConstantModel
from symtorch.numpy_payload import NumpyProxy, SymNd, sym_nd
import leaspy.algo.personalize.constant_prediction_algo as _cpa

if isinstance(getattr(_cpa, "np", None), type(np)):  # conversions of an already-float symbolic array are the identity
    _cpa.np = NumpyProxy(np)
from vcheck.common import Recorder, guarded, model_value

PROP = "C20"
META = dict(
    explanation="For every ordering of up to 3 visits (ages symbolic and distinct), every float64 value incl. NaN and entirely-NaN features, the real "
    "_get_feature_values returns: the row at the greatest age (last); per feature the value at the greatest age with a non-NaN value, NaN iff all NaN "
    "(last-known); numpy's nan-max / nan-mean along visits (max / mean: the delegation and the axis are what is checked); the constant model returns that "
    "vector at every requested age. LME benchmark: the real numpy code of _get_individual_random_effects_and_residuals runs on object arrays of symbolic reals "
    "(every missing pattern enumerated): the returned random effects solve the normal equations (Z'Z + Psi^-1) b = Z'r over the observed visits - i.e. they are the "
    "conditional means given the variance components - and the residuals are y - X beta - Z b on the observed visits, in order.",
    bounds="visits <= 3, features <= 2, requested ages <= 3; LME: visits <= 3 (4 thorough), every missing pattern with >= 1 observed visit, with and without random slope",
    outside="agreement of the fitted variance components / random effects with statsmodels MixedLM (library code, not symbolically executable); LME trajectories",
    assumptions=["np.nanmax / np.nanmean semantics are modelled in the harness (trusted specification of numpy)", "ages pairwise distinct", "np.asarray / np.array of a float64 symbolic array with dtype float is the identity (module-level `np` proxy)",
                 "LME: reals; a missing observation is an unconstrained real flagged missing (np.isnan stub answers from the flag; NaN poisoning through arithmetic is not modelled); "
                 "np.linalg.inv(A) is a fresh matrix under A G = G A = I with det A > 0 proved separately; variance components symmetric positive definite"],
)


class _Host:
    _get_feature_values = ConstantPredictionAlgorithm._get_feature_values
    _get_individual_last_values = ConstantPredictionAlgorithm._get_individual_last_values


def _replay(ptype, n, d, first=None):
    """replay script: the solver's own (ages, values) first when given, then a fixed enumeration"""
    return f"""
FIRST = {first!r}
import numpy as np, itertools
from leaspy.algo.personalize.constant_prediction_algo import ConstantPredictionAlgorithm, PredictionType
class H:
    _get_feature_values = ConstantPredictionAlgorithm._get_feature_values
    _get_individual_last_values = ConstantPredictionAlgorithm._get_individual_last_values
h = H(); h.prediction_type = PredictionType({ptype!r})
bad = []
nan = float('nan')
pal = [nan, 0.25, -1.5, 3.0]
def cases():
    if FIRST is not None:
        yield tuple(float(a) for a in FIRST[0]), [float(x) for x in FIRST[1]]
    for ages in itertools.permutations([70.5, 61.0, 82.25][:{n}]):
        for flat in itertools.product(pal, repeat={n * d}):
            yield ages, flat
    for ages in itertools.permutations([-3.5, 0.0, 2.25][:{n}]):
        for flat in itertools.product(pal, repeat={n * d}):
            yield ages, flat
for ages, flat in cases():
    if True:
        v = np.array(flat, dtype=float).reshape({n}, {d}); t = np.array(ages)
        import warnings
        with warnings.catch_warnings():
            warnings.simplefilter('ignore'); got = np.asarray(h._get_feature_values(t, v), dtype=float)
        exp = np.full({d}, nan)
        order = np.argsort(-t)
        for k in range({d}):
            col = v[order, k]
            if {ptype!r} == 'last': exp[k] = col[0]
            elif {ptype!r} == 'last-known':
                nn = col[~np.isnan(col)]; exp[k] = nn[0] if len(nn) else nan
            elif {ptype!r} == 'max':
                nn = col[~np.isnan(col)]; exp[k] = nn.max() if len(nn) else nan
            else:
                nn = col[~np.isnan(col)]; exp[k] = nn.mean() if len(nn) else nan
        if not np.allclose(got, exp, equal_nan=True): bad.append((ages, v.tolist(), got.tolist(), exp.tolist())); break
print(bad[:1]); sys.exit(1 if bad else 0)
"""


def prediction_task(ptype, n, d):
    task = f"prediction[{ptype},visits={n},features={d}]"

    def body():
        rec = Recorder(PROP, task, [ConstantPredictionAlgorithm._get_feature_values, ConstantPredictionAlgorithm._get_individual_last_values])
        script = _replay(ptype, n, d)
        hold = {}

        def run():
            ages = sym_nd("age", (n,))
            vals = sym_nd("v", (n, d))
            for i, j in itertools.combinations(range(n), 2):
                T.assume(z3.Not(z3.fpEQ(ages.a[i], ages.a[j])))
            for i in range(n):
                T.assume(z3.Not(z3.Or(z3.fpIsNaN(ages.a[i]), z3.fpIsInf(ages.a[i]))))
            h = _Host()
            h.prediction_type = PredictionType(ptype)
            hold.update(ages=ages, vals=vals)
            out = h._get_individual_last_values(ages, vals, features=[f"f{k}" for k in range(d)])
            return out

        for c, res in st.explore(run, "F"):
            rec.end_path(c)
            if isinstance(res, Exception):
                raise res
            ages, vals = hold["ages"], hold["vals"]

            def from_model(m_, ages=ages, vals=vals):
                def num(t):
                    x = model_value(m_, t)
                    return repr(float(x))  # 'nan' / 'inf' survive float(...) in the script
                try:
                    return _replay(ptype, n, d, first=([num(a) for a in ages.a], [num(vals.a[j, k]) for j in range(n) for k in range(d)]))
                except Exception:
                    return script

            rec.obligations += 1
            if list(res.keys()) == [f"f{k}" for k in range(d)]:
                rec.discharged += 1
            else:
                rec.violation_from_script("keys", "C20:keys", script, "result not keyed by the features in order")
                continue
            for k in range(d):
                got = res[f"f{k}"]
                got = got.term if isinstance(got, st.SymScalar) else T.const_of(float(got), torch.float64)
                col = [vals.a[j, k] for j in range(n)]
                A = [ages.a[j] for j in range(n)]
                if ptype == "last":
                    for j in range(n):
                        latest = z3.And(*[z3.fpGT(A[j], A[i]) for i in range(n) if i != j]) if n > 1 else z3.BoolVal(True)
                        rec.prove(f"last[f{k}]@visit{j}", z3.Implies(latest, T.same_value(got, col[j])), replay=from_model, key="C20:last", what="`last` is not the value at the greatest age")
                elif ptype == "last-known":
                    for j in range(n):
                        cond = z3.And(z3.Not(z3.fpIsNaN(col[j])), *[z3.Or(z3.fpIsNaN(col[i]), z3.fpLT(A[i], A[j])) for i in range(n) if i != j])
                        rec.prove(f"last-known[f{k}]@visit{j}", z3.Implies(cond, T.same_value(got, col[j])), replay=from_model, key="C20:last-known", what="`last-known` is not the value at the greatest age with a non-missing value")
                    rec.prove(f"last-known[f{k}]:all-missing", z3.Implies(z3.And(*[z3.fpIsNaN(x) for x in col]), z3.fpIsNaN(got)), replay=from_model, key="C20:last-known", what="feature entirely missing does not give NaN")
                elif ptype == "max":
                    some = z3.Or(*[z3.Not(z3.fpIsNaN(x)) for x in col])
                    rec.prove(f"max[f{k}]:upper", z3.Implies(some, z3.And(z3.Not(z3.fpIsNaN(got)), *[z3.Or(z3.fpIsNaN(x), z3.fpGEQ(got, x)) for x in col])), replay=from_model, key="C20:max", what="`max` is not an upper bound of the observed values")
                    rec.prove(f"max[f{k}]:attained", z3.Implies(some, z3.Or(*[z3.And(z3.Not(z3.fpIsNaN(x)), z3.fpEQ(got, x)) for x in col])), replay=from_model, key="C20:max", what="`max` is not one of the observed values")
                    rec.prove(f"max[f{k}]:all-missing", z3.Implies(z3.Not(some), z3.fpIsNaN(got)), replay=from_model, key="C20:max", what="feature entirely missing does not give NaN")
                else:
                    s = z3.FPVal(0.0, T.F64)
                    cnt = z3.FPVal(0.0, T.F64)
                    for x in col:
                        s = z3.If(z3.fpIsNaN(x), s, z3.fpAdd(T.RNE, s, x))
                        cnt = z3.If(z3.fpIsNaN(x), cnt, z3.fpAdd(T.RNE, cnt, z3.FPVal(1.0, T.F64)))
                    rec.prove(f"mean[f{k}]", T.same_value(got, z3.fpDiv(T.RNE, s, cnt)), replay=from_model, key="C20:mean", what="`mean` is not the mean of the observed values (visit order)")
            if rec.paths == 1:
                rec.sample({"prediction_type": ptype, "visits": n, "features": d, "ages": "symbolic distinct, any order", "values": "float64 incl. NaN"})
        return rec.result()

    return guarded(PROP, task, body)


def trajectory_task(n_ages, d):
    task = f"constant-trajectory[ages={n_ages},features={d}]"

    def body():
        rec = Recorder(PROP, task, [ConstantModel.compute_individual_trajectory])
        st.new_context("F")
        m = ConstantModel("constant", features=[f"f{k}" for k in range(d)])
        vals = st.sym("ip", (d,), torch.float64)
        ip = {f"f{k}": st.SymScalar(vals.sym[k], torch.float64) for k in range(d)}
        ages = [60.0 + i for i in range(n_ages)]
        saved = torch.tensor

        def sym_tensor(data, dtype=None, **kw):
            arr = np.array(data, dtype=object)
            out = np.empty(arr.shape, dtype=object)
            for idx in np.ndindex(*arr.shape):
                x = arr[idx]
                out[idx] = T.cast(x.term, dtype or torch.float32, torch.float64) if isinstance(x, st.SymScalar) else T.const_of(float(x), dtype or torch.float32)
            return st.mk(out, dtype or torch.float32)

        torch.tensor = sym_tensor
        rec.stubs.append("torch.tensor -> symbolic factory (nested lists of symbolic scalars)")
        try:
            out = m.compute_individual_trajectory(ages, ip)
        finally:
            torch.tensor = saved
        script = f"""
from leaspy.models.constant import ConstantModel
m = ConstantModel('constant', features={[f'f{k}' for k in range(d)]!r})
ip = {{f'f{{k}}': 0.125 * (k + 1) for k in range({d})}}
out = m.compute_individual_trajectory({ages!r}, ip)
exp = torch.tensor([[[0.125 * (k + 1) for k in range({d})]] * {n_ages}], dtype=torch.float32)
print(out); sys.exit(0 if (tuple(out.shape) == (1, {n_ages}, {d}) and torch.equal(out, exp)) else 1)
"""
        rec.obligations += 1
        if tuple(out.shape) == (1, n_ages, d):
            rec.discharged += 1
            O = st.to_terms(out)
            for j in range(n_ages):
                for k in range(d):
                    rec.prove(f"traj[{j}][{k}]", T.same_value(O[0, j, k], T.cast(vals.sym[k], torch.float32, torch.float64)), replay=lambda m_: script, key="C20:trajectory", what="constant trajectory is not the stored vector at every requested age")
        else:
            rec.violation_from_script("shape", "C20:trajectory-shape", script, f"shape {tuple(out.shape)}")
        rec.sample({"ages": ages, "features": d})
        rec.end_path()
        return rec.result()

    return guarded(PROP, task, body)


# ------------------------------------------------------------------------------------------------------------------
# LME benchmark: the personalized random effects are the conditional means given the variance components.
# The real numpy code of LMEPersonalizeAlgorithm._get_individual_random_effects_and_residuals runs on object arrays whose
# elements are symbolic real scalars (numpy applies the Python operators elementwise; statsmodels' add_constant runs as is).
# ------------------------------------------------------------------------------------------------------------------
class _Missing(st.SymScalar):
    """a missing observation: np.isnan (stub) answers True for it; arithmetic on it yields an unconstrained real, so any
    dependence of a result on it is a counterexample (NaN poisoning through arithmetic such as 0 * NaN is not modelled)"""


class _NumpyStubs:
    """np.isnan / np.linalg.inv have no object-dtype loops: isnan answers from the (concrete) missing pattern; inv returns a
    fresh symbolic matrix G under its contract  A G = G A = I, and records det A so that invertibility is proved separately"""

    def __enter__(self):
        self.saved = (np.isnan, np.linalg.inv)
        self.dets = []
        o_isnan, o_inv = self.saved
        stubs = self

        def isnan(x, *a, **k):
            if isinstance(x, np.ndarray) and x.dtype == object:
                return np.array([isinstance(v, _Missing) or (isinstance(v, float) and v != v) for v in x.reshape(-1)], dtype=bool).reshape(x.shape)
            return o_isnan(x, *a, **k)

        def inv(A):
            if isinstance(A, np.ndarray) and A.dtype == object:
                k = A.shape[0]
                if A.shape not in ((1, 1), (2, 2)):
                    raise st.Unsupported(f"inverse of a symbolic {A.shape} matrix")
                tt = lambda v: v.term if isinstance(v, st.SymScalar) else T.real_val(v)
                At = [[tt(A[i, j]) for j in range(k)] for i in range(k)]
                n_ = len(stubs.dets)
                Gt = [[z3.Real(f"inv{n_}_{i}{j}") for j in range(k)] for i in range(k)]
                for i in range(k):
                    for j in range(k):
                        e = T.real_val(1 if i == j else 0)
                        T.assume(sum((At[i][l] * Gt[l][j] for l in range(k)), T.real_val(0)) == e)
                        T.assume(sum((Gt[i][l] * At[l][j] for l in range(k)), T.real_val(0)) == e)
                stubs.dets.append(At[0][0] if k == 1 else At[0][0] * At[1][1] - At[0][1] * At[1][0])
                return np.array([[st.SymScalar(Gt[i][j], torch.float64) for j in range(k)] for i in range(k)], dtype=object)
            return o_inv(A)

        np.isnan, np.linalg.inv = isnan, inv
        return self

    def __exit__(self, *a):
        np.isnan, np.linalg.inv = self.saved


def lme_task(n_vis, slope):
    """every missing pattern of n_vis visits (at least one observed), symbolic ages / values / normalisation / fixed effects / variance components"""
    from leaspy.algo.personalize.lme_personalize import LMEPersonalizeAlgorithm as LME

    task = f"lme-random-effects[visits={n_vis},random_slope={slope}]"

    def body():
        rec = Recorder(PROP, task, [LME._get_individual_random_effects_and_residuals.__func__, LME._generic_get_random_effects, LME._remove_nans])
        rec.stubs += ["np.isnan on the payload -> the enumerated missing pattern", "np.linalg.inv(A) -> fresh G with A G = G A = I (1x1, 2x2); det A > 0 proved as a side obligation"]
        f64 = torch.float64
        for pattern in itertools.product([True, False], repeat=n_vis):
            if not any(pattern):
                continue
            st.new_context("R")
            T.ctx().congruence = False
            S = lambda nm: st.SymScalar(z3.Real(nm), f64)
            t = [z3.Real(f"t{i}") for i in range(n_vis)]
            y = [z3.Real(f"y{i}") for i in range(n_vis)]
            mu, sd, b0, b1, a, c_, d = (z3.Real(x) for x in ("mu", "sd", "b0", "b1", "psi_a", "psi_c", "psi_d"))
            T.assume(sd > 0)
            # inverse (unscaled) covariance of the random effects: symmetric positive definite
            T.assume(a > 0)
            if slope:
                T.assume(z3.And(d > 0, a * d - c_ * c_ > 0))
            times = np.array([st.SymScalar(x, f64) for x in t], dtype=object)
            values = np.array([[st.SymScalar(y[i], f64) if pattern[i] else _Missing(z3.Real(f"missing{i}"), f64)] for i in range(n_vis)], dtype=object)

            class M:
                with_random_slope_age = slope
                parameters = {
                    "ages_mean": st.SymScalar(mu, f64), "ages_std": st.SymScalar(sd, f64),
                    "fe_params": np.array([st.SymScalar(b0, f64), st.SymScalar(b1, f64)], dtype=object),
                    "cov_re_unscaled_inv": np.array([[st.SymScalar(a, f64), st.SymScalar(c_, f64)], [st.SymScalar(c_, f64), st.SymScalar(d, f64)]], dtype=object) if slope else np.array([[st.SymScalar(a, f64)]], dtype=object),
                }

            with _NumpyStubs() as stubs:
                re_d, resid = LME._get_individual_random_effects_and_residuals(M, times, values)
            obs = [i for i in range(n_vis) if pattern[i]]
            # generalisation: the normalised ages (t_i - mean) / std, as the code built them, are replaced by free variables g_i
            # (the claim for arbitrary g_i implies the claim for these particular ones; fewer non-linear atoms for the solver)
            age_code = {i: ((times[i] - M.parameters["ages_mean"]) / M.parameters["ages_std"]).term for i in range(n_vis)}
            g = {i: z3.Real(f"g{i}") for i in range(n_vis)}
            gen = lambda e: z3.substitute(e, *[(age_code[i], g[i]) for i in range(n_vis)])
            term = lambda v: gen(v.term) if isinstance(v, st.SymScalar) else T.real_val(v)
            T.ctx().assumptions[:] = [gen(x) for x in T.ctx().assumptions]
            age = {i: g[i] for i in obs}
            r = {i: y[i] - (b0 + b1 * age[i]) for i in obs}

            def rp(model, pattern=pattern):
                val = lambda x: float(model_value(model, x))
                return f"""
import numpy as np
from leaspy.algo.personalize.lme_personalize import LMEPersonalizeAlgorithm as LME
nan = float('nan')
pattern = {list(pattern)!r}
t = np.array({[0] * n_vis!r}, dtype=float); y = np.array({[0] * n_vis!r}, dtype=float)
t[:] = {[val(x) for x in t]!r}; y[:] = {[val(x) for x in y]!r}
y[~np.array(pattern)] = nan
class M:
    with_random_slope_age = {slope!r}
    parameters = dict(ages_mean={val(mu)!r}, ages_std={val(sd)!r}, fe_params=np.array([{val(b0)!r}, {val(b1)!r}]),
                      cov_re_unscaled_inv=np.array({([[val(a), val(c_)], [val(c_), val(d)]] if slope else [[val(a)]])!r}))
re, res = LME._get_individual_random_effects_and_residuals(M, t, y.reshape(-1, 1))
o = np.array(pattern)
age = (t[o] - M.parameters['ages_mean']) / M.parameters['ages_std']
Z = np.column_stack([np.ones(o.sum()), age]) if {slope!r} else np.ones((o.sum(), 1))
r = y[o] - (M.parameters['fe_params'][0] + M.parameters['fe_params'][1] * age)
b = np.linalg.solve(Z.T @ Z + M.parameters['cov_re_unscaled_inv'], Z.T @ r)   # conditional mean of the random effects over the OBSERVED visits
got = np.array([re['random_intercept']] + ([re['random_slope_age']] if {slope!r} else []), dtype=float)
ok = np.allclose(got, b, rtol=1e-6, atol=1e-9) and np.shape(res) == (o.sum(),) and np.allclose(np.asarray(res, dtype=float), r - Z @ b, rtol=1e-6, atol=1e-9)
print('pattern', pattern, 'random effects', got, 'conditional mean', b); sys.exit(0 if ok else 1)
"""

            key = "C20:lme-conditional-mean"
            want = ["random_intercept"] + (["random_slope_age"] if slope else [])
            rec.obligations += 1
            if sorted(re_d) == sorted(want) and np.shape(resid) == (len(obs),):
                rec.discharged += 1
            else:
                rec.violation_from_script(f"layout{list(pattern)}", key, rp(_Ones()), f"random effects {sorted(re_d)} / residuals of shape {np.shape(resid)} for {len(obs)} observed visits")
                continue
            # the matrices handed to np.linalg.inv are invertible (the stub's contract is only assumed for those)
            for n_, det in enumerate(stubs.dets):
                rec.prove(f"invertible{list(pattern)}#{n_}", gen(det) > 0, replay=rp, key=key, timeout_ms=120000, what="a matrix inverted by the code is not positive definite for positive definite variance components")
            u = term(re_d["random_intercept"])
            w = term(re_d["random_slope_age"]) if slope else None
            n_o = T.real_val(len(obs))
            if slope:
                s1 = sum((age[i] for i in obs), T.real_val(0))
                s2 = sum((age[i] * age[i] for i in obs), T.real_val(0))
                eq1 = (n_o + a) * u + (s1 + c_) * w == sum((r[i] for i in obs), T.real_val(0))
                eq2 = (s1 + c_) * u + (s2 + d) * w == sum((age[i] * r[i] for i in obs), T.real_val(0))
                rec.prove(f"normal-equations{list(pattern)}", z3.And(eq1, eq2), replay=rp, key=key, timeout_ms=120000, tactics=("default", "qfnra-nlsat"),
                          what="the random effects do not solve (Z'Z + Psi^-1) b = Z'r over the observed visits (they are not the conditional means)")
            else:
                rec.prove(f"normal-equation{list(pattern)}", (n_o + a) * u == sum((r[i] for i in obs), T.real_val(0)), replay=rp, key=key, timeout_ms=120000,
                          what="the random intercept is not sum(residuals) / (n_observed + psi^-1)")
            for k_, i in enumerate(obs):
                exp = r[i] - u - (w * age[i] if slope else 0)
                rec.prove(f"residual{list(pattern)}[{k_}]", term(np.asarray(resid, dtype=object).reshape(-1)[k_]) == exp, replay=rp, key=key, timeout_ms=120000,
                          what="returned residuals are not y - X beta - Z b on the observed visits, in visit order")
            if rec.paths == 0:
                rec.twin("ctx")
            rec.end_path()
        rec.sample({"visits": n_vis, "random_slope": slope, "missing patterns": 2 ** n_vis - 1})
        return rec.result()

    return guarded(PROP, task, body)


class _Ones:
    def eval(self, t, model_completion=True):
        return z3.RealVal(1)


def tasks(tier, seed=0):
    ts = []
    for p in ("last", "last-known", "max", "mean"):
        ts.append(("prediction_task", dict(ptype=p, n=3, d=2)))
        ts.append(("prediction_task", dict(ptype=p, n=1, d=1)))
        if tier == "thorough":
            ts.append(("prediction_task", dict(ptype=p, n=2, d=2)))
            ts.append(("prediction_task", dict(ptype=p, n=4, d=1)))
    ts.append(("trajectory_task", dict(n_ages=3, d=2)))
    for slope in (True, False):
        ts.append(("lme_task", dict(n_vis=2, slope=slope)))
        ts.append(("lme_task", dict(n_vis=3, slope=slope)))
        if tier == "thorough":
            ts.append(("lme_task", dict(n_vis=4, slope=slope)))
    return ts
