"""C19 — temperature and proposal-scale schedules stay within their documented envelopes.

(a) Annealing: the real AlgorithmWithAnnealingMixin._initialize_annealing / _update_temperature are driven for every
    (n_iter, annealing n_iter, n_plateau) in the enumerated integer bounds with a SYMBOLIC initial temperature: exact reals (R)
    for the envelope (start, monotone, >= 1, changes only at multiples of the period within the annealing iterations, no crash for
    accepted configurations) and IEEE float64 (F) for "exactly 1 once the annealing iterations are over".
    The integer-only part (period >= 1 for every accepted configuration, unbounded ints) is decided by CrossHair on the real method.
(b) Adaptive proposal scale: one call of the real _update_acceptation_rate + _update_std of each of the four sampler classes from an
    arbitrary state (symbolic counter residue, symbolic 0/1 history, symbolic positive std, symbolic band and factor), float32.
"""
from __future__ import annotations

import itertools
import os
import subprocess

import numpy as np
import torch
import z3

from harness.samplers_common import *  # noqa
from leaspy.algo.algo_with_annealing import AlgorithmWithAnnealingMixin as ANN
from leaspy.exceptions import LeaspyAlgoInputError
from vcheck.common import Recorder, guarded, tensor_literal, model_value, run_replay

PROP = "C19"
META = dict(
    explanation="The real annealing mixin is executed with a symbolic initial temperature for every integer configuration within the bounds (reals for the "
    "envelope, IEEE float64 for exactness of the final temperature); CrossHair decides the integer arithmetic of the plateau period on the real method; "
    "the real _update_acceptation_rate/_update_std of the four samplers are executed once from an arbitrary symbolic state in float32.",
    bounds="n_iter <= 8 (quick) / 12 (thorough), annealing n_iter <= n_iter, n_plateau in 2..6 (8 thorough), T0 in (1, 1000]; history length L <= 3 (4 thorough), std blocks <= 3",
    outside="oscillating scheme (np.sin); n_plateau == 1 (documented: stays at the initial temperature, with a warning); overflow of std*(1+f)",
    assumptions=["SymScalar stands for the Python float temperature", "max() resolved by solver-decided comparison"],
)


class _Algo:
    """minimal host object for the mixin's methods (the real unbound methods are called on it)"""

    def __init__(self, n_iter, ann_n_iter, n_plateau, T0):
        self.annealing_on = True
        self.temperature = 1.0
        self.temperature_inv = 1.0
        self._annealing_period = None
        self._annealing_temperature_decrement = None
        self.current_iteration = 0
        self.algo_parameters = {"n_iter": n_iter, "annealing": {"do_annealing": True, "initial_temperature": T0, "n_plateau": n_plateau, "n_iter": ann_n_iter, "n_iter_frac": None}}


def _schedule_replay(n_iter, ann, P, T0lit):
    return f"""
from leaspy.algo.algo_with_annealing import AlgorithmWithAnnealingMixin as ANN
from leaspy.exceptions import LeaspyAlgoInputError
class A: pass
a = A(); a.annealing_on = True; a.temperature = 1.0; a.temperature_inv = 1.0; a._annealing_period = None; a._annealing_temperature_decrement = None
T0 = {T0lit}
a.algo_parameters = {{"n_iter": {n_iter}, "annealing": {{"do_annealing": True, "initial_temperature": T0, "n_plateau": {P}, "n_iter": {ann}, "n_iter_frac": None}}}}
try:
    ANN._initialize_annealing(a)
except LeaspyAlgoInputError as e:
    print('refused at initialisation:', e); sys.exit(0)
bad = []
prev = a.temperature
if prev != T0: bad.append(f'starts at {{prev}} not {{T0}}')
for k in range(1, {n_iter} + 1):
    a.current_iteration = k
    try: ANN._update_temperature(a)
    except Exception as e: bad.append(f'iteration {{k}}: {{type(e).__name__}}: {{e}}'); break
    t = a.temperature
    if t > prev: bad.append(f'increase at {{k}}')
    if t < 1: bad.append(f'below 1 at {{k}}')
    if t != prev and not (k <= {ann} and a._annealing_period and k % a._annealing_period == 0): bad.append(f'change outside a plateau boundary at {{k}}')
    prev = t
if not bad and {ann} >= 1 and {P} >= 2 and a.temperature != 1.0: bad.append(f'temperature after annealing is {{a.temperature!r}}, not exactly 1')
if not bad and a.temperature_inv != 1.0 / a.temperature: bad.append('temperature_inv out of sync')
print('T0 =', T0, 'n_iter={n_iter} annealing_n_iter={ann} n_plateau={P}:', bad); sys.exit(1 if bad else 0)
"""


def annealing_task(theory, n_iter_max, P_values):
    task = f"annealing[{theory},n_iter<={n_iter_max},P={list(P_values)}]"

    def body():
        rec = Recorder(PROP, task, [ANN._initialize_annealing, ANN._update_temperature])
        mode = "R" if theory == "R" else "F"
        dt = torch.float32 if mode == "R" else torch.float64
        for P in P_values:
            for n_iter in range(1, n_iter_max + 1):
                for ann in range(0, n_iter + 1):
                    if mode == "F" and not (n_iter == ann and ann in (P - 1, P, 2 * (P - 1))):
                        continue  # F: the float trajectory only depends on P and on the number of decrements (= P-1, or more)
                    hold = {}

                    def run():
                        T.ctx().decide_timeout_ms = 30000
                        T0 = st.sym("T0", (), dt)
                        t0 = T0.sym[()]
                        if mode == "R":
                            T.assume(z3.And(t0 > 1, t0 <= 1000))
                        else:
                            T.assume(z3.And(z3.fpGT(t0, z3.FPVal(1.0, T.F64)), z3.fpLEQ(t0, z3.FPVal(1000.0, T.F64))))
                        a = _Algo(n_iter, ann, P, st.SymScalar(t0, dt))
                        hold.update(T0=T0, a=a, trace=[], err=None)
                        ANN._initialize_annealing(a)
                        hold["trace"].append(a.temperature)
                        for k in range(1, n_iter + 1):
                            a.current_iteration = k
                            try:
                                ANN._update_temperature(a)
                            except (ZeroDivisionError, TypeError, AttributeError) as e:
                                hold["err"] = (k, e)
                                return "crash"
                            hold["trace"].append(a.temperature)
                        return "done"

                    for c, res in st.explore(run, mode):
                        rec.end_path(c)
                        T0, a, trace, err = hold["T0"], hold["a"], hold["trace"], hold["err"]
                        t0 = T0.sym[()]

                        def rp(model, n_iter=n_iter, ann=ann, P=P):
                            return _schedule_replay(n_iter, ann, P, repr(model_value(model, t0)) if model is not None else "5.0")

                        if isinstance(res, LeaspyAlgoInputError):
                            rec.obligations += 1
                            rec.discharged += 1  # a refusal at initialisation is an accepted outcome
                            continue
                        if isinstance(res, Exception):
                            raise res
                        if res == "crash":
                            rec.violation_from_script(f"crash[n_iter={n_iter},ann={ann},P={P}]", "C19:annealing-period-zero" if isinstance(err[1], ZeroDivisionError) else f"C19:crash:{type(err[1]).__name__}",
                                                      _schedule_replay(n_iter, ann, P, "5.0"), what=f"accepted configuration crashes at iteration {err[0]}: {type(err[1]).__name__}")
                            continue

                        def term(x):
                            return x.term if isinstance(x, st.SymScalar) else T.const_of(float(x), dt)

                        tr = [term(x) for x in trace]
                        name = f"[n_iter={n_iter},ann={ann},P={P}]"
                        if mode == "R":
                            rec.prove("start" + name, tr[0] == t0, replay=rp, key="C19:envelope", what="temperature does not start at the initial value")
                            per = a._annealing_period
                            for k in range(1, n_iter + 1):
                                goal = z3.And(tr[k] <= tr[k - 1], tr[k] >= 1)
                                if not (k <= ann and per and k % per == 0):
                                    goal = z3.And(goal, tr[k] == tr[k - 1])
                                rec.prove(f"step{k}" + name, goal, replay=rp, key="C19:envelope", what="temperature increases / goes below 1 / changes outside a plateau boundary")
                            if ann >= 1:
                                rec.prove("final" + name, tr[-1] == 1, replay=rp, key="C19:final-real", what="temperature is not 1 after the annealing iterations (exact arithmetic)")
                            inv = term(a.temperature_inv)
                            rec.prove("inv" + name, inv * tr[-1] == 1, replay=rp, key="C19:inv", what="temperature_inv is not 1/temperature")
                        else:
                            one = z3.FPVal(1.0, T.F64)
                            rec.prove("final-exact" + name, z3.fpEQ(tr[-1], one), replay=rp, key="C19:final-float-not-exactly-1", timeout_ms=240000,
                                      what="temperature after the annealing iterations is not exactly 1.0 in float64")
                            rec.prove("never-below-1" + name, z3.And(*[z3.And(z3.fpGEQ(x, one), z3.Not(z3.fpIsNaN(x))) for x in tr]), replay=rp, key="C19:float-envelope", timeout_ms=240000,
                                      what="temperature below 1 / NaN in float64")
                    if len(rec.violations) >= 3:
                        return rec.result()
        rec.sample({"theory": theory, "n_iter_max": n_iter_max, "n_plateau": list(P_values), "T0": "symbolic in (1, 1000]"})
        return rec.result()

    return guarded(PROP, task, body)


def no_annealing_task():
    task = "no-annealing"

    def body():
        rec = Recorder(PROP, task, [ANN._initialize_annealing, ANN._update_temperature])
        st.new_context("R")
        a = _Algo(6, 3, 4, 7.0)
        a.annealing_on = False
        ANN._initialize_annealing(a)
        ok = a.temperature == 1.0
        for k in range(1, 7):
            a.current_iteration = k
            ANN._update_temperature(a)
            ok = ok and a.temperature == 1.0 and a.temperature_inv == 1.0
        rec.obligations += 1
        if ok:
            rec.discharged += 1
        else:
            rec.violation_from_script("no-annealing", "C19:no-annealing", "sys.exit(1)\n", "temperature moves although annealing is off")
        rec.sample({"case": "annealing off: temperature stays 1 (concrete run, no symbolic input involved)"})
        return rec.result()

    return guarded(PROP, task, body)


CROSSHAIR_FILE = "/verif/crosshair_harness/c19_period.py"


def crosshair_period_task():
    """integer arithmetic of the plateau period, unbounded ints, decided by CrossHair on the real _initialize_annealing"""
    task = "crosshair[period>=1]"

    def body():
        from vcheck.crosshair_util import run_crosshair

        rec = Recorder(PROP, task, [ANN._initialize_annealing])
        res = run_crosshair(CROSSHAIR_FILE, per_condition_timeout=40)
        from vcheck.crosshair_util import record

        record(rec, task, res, CROSSHAIR_FILE, key_of=lambda fn, call: "C19:annealing-period-zero")
        return rec.result()

    return guarded(PROP, task, body)


def period_task():
    """symbolic (unbounded) integers: every configuration accepted by the real _initialize_annealing has a period >= 1, and
    iterating never divides by zero"""
    task = "period[symbolic ints]"

    def body():
        rec = Recorder(PROP, task, [ANN._initialize_annealing, ANN._update_temperature])
        hold = {}

        def run():
            ann = st.sym("ann", (), torch.int64)
            P = st.sym("P", (), torch.int64)
            k = st.sym("k", (), torch.int64)
            T.assume(z3.And(ann.sym[()] >= 0, P.sym[()] >= 2, k.sym[()] >= 1))
            a = _Algo(10, st.SymScalar(ann.sym[()], torch.int64), _IntLike(P.sym[()]), 10.0)
            hold.update(ann=ann, P=P, k=k, a=a)
            ANN._initialize_annealing(a)
            a.current_iteration = st.SymScalar(k.sym[()], torch.int64)
            ANN._update_temperature(a)
            return "done"

        for c, res in st.explore(run, "F"):
            rec.end_path(c)
            a = hold["a"]
            rec.obligations += 1
            if isinstance(res, LeaspyAlgoInputError) or res == "done":
                rec.discharged += 1
                if res == "done" and a._annealing_period is not None:
                    per = a._annealing_period.term if isinstance(a._annealing_period, st.SymScalar) else z3.IntVal(int(a._annealing_period))
                    rec.prove("period>=1", per >= 1, key="C19:annealing-period-zero", replay=lambda m_: _schedule_replay(int(model_value(m_, hold["ann"].sym[()])) + 1, int(model_value(m_, hold["ann"].sym[()])), int(model_value(m_, hold["P"].sym[()])), "10.0"),
                              what="accepted annealing configuration with a zero plateau period")
            elif isinstance(res, ZeroDivisionError):
                rec.violation_from_script("zero-division", "C19:annealing-period-zero", _schedule_replay(3, 1, 10, "10.0"), "ZeroDivisionError in _update_temperature for an accepted configuration")
            elif isinstance(res, Exception):
                raise res
        rec.sample({"ints": "annealing n_iter >= 0, n_plateau >= 2, iteration >= 1: all symbolic"})
        return rec.result()

    return guarded(PROP, task, body)


class _IntLike(int):
    """an `int` instance (passes `isinstance(n_plateau, int)`) whose arithmetic is symbolic"""

    def __new__(cls, term):
        o = int.__new__(cls, 2)
        o.s = st.SymScalar(term, torch.int64)
        return o

    def __gt__(self, o):
        return self.s > o

    def __eq__(self, o):
        return self.s == o

    def __hash__(self):
        return id(self)

    def __sub__(self, o):
        return self.s - o

    def __rsub__(self, o):
        return o - self.s


# ------------------------------------------------------------------------------------------------------------------
# (b) adaptive proposal scale
# ------------------------------------------------------------------------------------------------------------------
def update_std_task(kind, shape, L, n_ind=2):
    task = f"update_std[{kind},shape={tuple(shape)},L={L}]"

    def body():
        rec = Recorder(PROP, task, [GibbsSamplerMixin._update_std, AbstractSampler._update_acceptation_rate])
        for residue in range(L):  # (counter + 1) % L enumerated; the counter itself is arbitrary

            def run():
                if kind == "ind-gibbs":
                    smp = sampler_factory("gibbs", IndividualLatentVariable, name="v", shape=shape, n_patients=n_ind, scale=1.0, acceptation_history_length=L)
                else:
                    smp = sampler_factory(kind, PopulationLatentVariable, name="v", shape=shape, scale=torch.ones(shape), acceptation_history_length=L)
                sshape = tuple(smp.std.shape)
                std = st.sym("std", sshape)
                hist = st.sym("hist01", (L,) + sshape, torch.bool)
                acc = st.sym("acc01", sshape, torch.bool)
                lo, hi, f = st.sym("lo", ()), st.sym("hi", ()), st.sym("f", ())
                zero, one = z3.FPVal(0.0, T.F32), z3.FPVal(1.0, T.F32)
                for x in std.sym.reshape(-1):
                    T.assume(z3.And(z3.fpGT(x, zero), z3.Not(z3.fpIsInf(x)), z3.Not(z3.fpIsNaN(x))))
                T.assume(z3.And(z3.fpGT(lo.sym[()], zero), z3.fpLT(lo.sym[()], hi.sym[()]), z3.fpLT(hi.sym[()], one)))
                T.assume(z3.And(z3.fpGT(f.sym[()], zero), z3.fpLT(f.sym[()], one)))
                smp.std = std.clone()
                smp.acceptation_history = hist.float()
                smp._mean_acceptation_lower_bound_before_adaptation = lo
                smp._mean_acceptation_upper_bound_before_adaptation = hi
                smp._adaptive_std_factor = f
                smp._counter = 7 * L + ((residue - 1) % L)  # so that (counter + 1) % L == residue
                smp._update_acceptation_rate(acc.float())
                smp._update_std()
                return smp, std, hist, acc, lo, hi, f

            for c, res in st.explore(run, "F"):
                rec.end_path(c)
                if isinstance(res, Exception):
                    raise res
                smp, std, hist, acc, lo, hi, f = res
                new = st.to_terms(smp.std)
                H = st.to_terms(smp.acceptation_history)
                old = std.sym
                sshape = old.shape
                fone = z3.FPVal(1.0, T.F32)

                def rp(model):
                    return f"""
from leaspy.samplers import sampler_factory
from leaspy.variables.specs import PopulationLatentVariable, IndividualLatentVariable
KIND, SHAPE, L = {kind!r}, {tuple(shape)!r}, {L}
smp = sampler_factory('gibbs', IndividualLatentVariable, name='v', shape=SHAPE, n_patients={n_ind}, scale=1.0, acceptation_history_length=L) if KIND == 'ind-gibbs' else sampler_factory(KIND, PopulationLatentVariable, name='v', shape=SHAPE, scale=torch.ones(SHAPE), acceptation_history_length=L)
std = {tensor_literal(std, model)}; hist = {tensor_literal(hist, model)}.float(); acc = {tensor_literal(acc, model)}.float()
lo, hi, f = float({tensor_literal(lo, model)}), float({tensor_literal(hi, model)}), float({tensor_literal(f, model)})
smp.std = std.clone(); smp.acceptation_history = hist.clone()
smp._mean_acceptation_lower_bound_before_adaptation, smp._mean_acceptation_upper_bound_before_adaptation, smp._adaptive_std_factor = lo, hi, f
smp._counter = 7 * L + (({residue} - 1) % L)
smp._update_acceptation_rate(acc); smp._update_std()
exp_hist = torch.cat([hist[1:], acc[None]])
bad = []
if not torch.equal(smp.acceptation_history, exp_hist): bad.append('history is not the old one shifted with the new decisions appended')
if {residue} != 0:
    if not torch.equal(smp.std, std): bad.append('std changed outside a multiple of the window length')
else:
    mean = exp_hist.mean(dim=0)
    exp = torch.where(mean < lo, std * (1 - f), torch.where(mean > hi, std * (1 + f), std))
    if not torch.allclose(smp.std, exp, rtol=1e-6, atol=0): bad.append(f'std {{smp.std}} expected {{exp}}')
if not bool((smp.std > 0).all() and torch.isfinite(smp.std).all()): bad.append('std not positive finite')
print(bad); sys.exit(1 if bad else 0)
"""

                # history: shifted by one, new decisions appended
                Hold = st.to_terms(hist.float())
                A = st.to_terms(acc.float())
                for idx in np.ndindex(*H.shape):
                    exp = A[idx[1:]] if idx[0] == L - 1 else Hold[(idx[0] + 1,) + idx[1:]]
                    rec.prove(f"history[r={residue}]{list(idx)}", T.same_value(H[idx], exp), replay=rp, key="C19:history", what="acceptance history is not shifted-and-appended")
                for idx in np.ndindex(*sshape):
                    if residue != 0:
                        rec.prove(f"std-unchanged[r={residue}]{list(idx)}", T.same_value(new[idx], old[idx]), replay=rp, key="C19:std-window", what="std changes although the call count is not a multiple of the window length")
                        continue
                    # mean acceptance of the block over the window (left fold, as the engine's mean)
                    s_ = z3.FPVal(0.0, T.F32)
                    for k in range(L):
                        s_ = T.mk_add(s_, H[(k,) + idx])  # same smart constructors as the engine (left fold)
                    mean = T.mk_div(s_, z3.FPVal(float(L), T.F32))
                    low, high = z3.fpLT(mean, lo.sym[()]), z3.fpGT(mean, hi.sym[()])
                    dn = z3.fpMul(T.RNE, old[idx], z3.fpSub(T.RNE, fone, f.sym[()]))
                    up = z3.fpMul(T.RNE, old[idx], z3.fpAdd(T.RNE, fone, f.sym[()]))
                    exp = z3.If(low, dn, z3.If(high, up, old[idx]))
                    # the band is non-empty (lo < hi): a block is never both below and above it (own, small obligation; then a lemma)
                    if rec.prove(f"band-exclusive[r=0]{list(idx)}", z3.Not(z3.And(low, high)), replay=rp, key="C19:std-rule", timeout_ms=90000, what="a block is both below and above the target band"):
                        T.ctx().lemmas.append(z3.Not(z3.And(low, high)))
                    up = z3.fpMul(T.RNE, old[idx], z3.fpAdd(T.RNE, f.sym[()], fone))
                    # case analysis (the three cases are exhaustive; exclusivity of low/high is the lemma just proved)
                    n_low = T.simp_under(T.simp_under(new[idx], low, True), high, False)
                    n_high = T.simp_under(T.simp_under(new[idx], high, True), low, False)
                    n_in = T.simp_under(T.simp_under(new[idx], low, False), high, False)
                    for nm, hyp, got_, exp_ in (("below", low, n_low, dn), ("above", high, n_high, up), ("inside", z3.And(z3.Not(low), z3.Not(high)), n_in, old[idx])):
                        rec.prove(f"std-rule[r=0,{nm}]{list(idx)}", z3.Implies(hyp, T.same_value(got_, exp_)), replay=rp, key="C19:std-rule", timeout_ms=90000,
                                  what="std is not multiplied by exactly (1-f) below the band / (1+f) above it / left unchanged inside")
                    rec.prove(f"std-positive[r=0]{list(idx)}", z3.Implies(z3.Not(z3.fpIsInf(up)), z3.And(z3.fpGT(new[idx], z3.FPVal(0.0, T.F32)), z3.Not(z3.fpIsInf(new[idx])), z3.Not(z3.fpIsNaN(new[idx])))) if False else
                              z3.And(z3.Not(z3.fpIsNaN(new[idx])), z3.fpGEQ(new[idx], z3.FPVal(0.0, T.F32))), replay=rp, key="C19:std-sign", timeout_ms=90000, what="std becomes NaN / negative")
            if len(rec.violations) >= 3:
                break
        rec.sample({"sampler": kind, "shape": list(shape), "window": L, "state": "symbolic std, 0/1 history, band, factor; counter residue enumerated"})
        return rec.result()

    return guarded(PROP, task, body)


def tasks(tier, seed=0):
    ts = [("no_annealing_task", {}), ("crosshair_period_task", {}), ("period_task", {})]
    if tier == "quick":
        for P in (2, 3, 4, 6):
            ts.append(("annealing_task", dict(theory="R", n_iter_max=8, P_values=[P])))
        for P in (2, 3, 4):
            ts.append(("annealing_task", dict(theory="F", n_iter_max=6, P_values=[P])))
        L = 3
    else:
        for P in range(2, 9):
            ts.append(("annealing_task", dict(theory="R", n_iter_max=12, P_values=[P])))
        for P in range(2, 7):
            ts.append(("annealing_task", dict(theory="F", n_iter_max=10, P_values=[P])))
        L = 4
    ts.append(("update_std_task", dict(kind="gibbs", shape=(2,), L=L)))
    ts.append(("update_std_task", dict(kind="fastgibbs", shape=(2, 2), L=L)))
    ts.append(("update_std_task", dict(kind="metropolis-hastings", shape=(2, 2), L=L)))
    ts.append(("update_std_task", dict(kind="ind-gibbs", shape=(1,), L=L)))
    return ts
