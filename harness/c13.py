"""C13 — estimate, personalize and simulate leave the model and caller inputs untouched (unit-level non-interference on the mechanisms).

Real code on the real State with symbolic values: compute_individual_trajectory (base and joint) works on a clone; the MCMC personalisation
prologue/epilogue (_initialize_algo ... _terminate_algo) leaves parameters / hyperparameters / population values term-equal and every data variable
and individual latent value unset; the scipy per-subject plumbing works on clones (shared with C17); the start point of scipy_minimize is compared
for two pre-states that differ only in leftover individual latent values (history independence); algorithm constructors never write into the
caller's AlgorithmSettings (CrossHair).
"""
from __future__ import annotations

import numpy as np
import torch
import z3

from harness.realmodel import *  # noqa
from leaspy.algo.personalize.mcmc import McmcPersonalizeAlgorithm
from leaspy.models.joint import JointModel
from leaspy.models.mcmc_saem_compatible import McmcSaemCompatibleModel
from leaspy.models.time_reparametrized import TimeReparametrizedModel
from leaspy.variables.specs import DataVariable, IndividualLatentVariable, ModelParameter, PopulationLatentVariable, Hyperparameter
from vcheck.common import Recorder, guarded

PROP = "C13"
META = dict(
    explanation="Identity / term-equality checks on the real State after the real entry points ran on symbolic values: trajectories are computed on a clone; the MCMC "
    "personalisation epilogue hands back a model state with the same parameters and population values and no data / individual values / pending fork; the scipy "
    "plumbing only touches per-subject clones; constructors deep-copy the settings. The start point of scipy_minimize is proved NOT to depend only on parameters "
    "and inputs (recorded known finding: leftover individual values of a previous fit are reused).",
    bounds="logistic (sources 0..1) and joint models, 2 individuals x 2 visits, 2 requested ages; n_iter symbolic in CrossHair; the visits table handed to simulate (identifiers numeric or text, symbolic in CrossHair) through the construction / design checks / visit-age derivation",
    outside="pandas copies of the caller's data in personalize / estimate, simulate's pandas pipeline after the visit ages (estimate, noise, assembly), equality of repeated full runs (C11's core)",
    assumptions=["samplers / annealing initialisation stubbed in the MCMC prologue check", "prior sampling replaced by fresh symbols in the start-point check"],
)


def trajectory_untouched_task(kind, kw):
    task = f"trajectory-untouched[{cfg_name(kind, kw)}]"

    def body():
        m = build_model(kind, **kw)
        rec = Recorder(PROP, task, [type(m).compute_individual_trajectory, State.clone])
        st.new_context("R")
        s = m.state
        put_symbolic_parameters(s)
        put_symbolic_population(s)
        # leftovers of an earlier call + a pending fork: none of it may move
        put_symbolic_individuals(s, 2, prefix="left_")
        s.auto_fork_type = StateForkType.REF
        s["xi"] = s["xi"] + 1
        s["alpha"]
        before = dict(s._values)
        fork = dict(s._last_fork)
        ips = {"xi": st.sym("q_xi", ()), "tau": st.sym("q_tau", ())}
        if m.has_sources:
            ips["sources"] = st.sym("q_src", (m.source_dimension,))
        out = m.compute_individual_trajectory(st.sym("ages", (2,)), ips)
        errs = [k for k in before if s._values[k] is not before[k]]
        if s._last_fork is None or any(s._last_fork[k] is not fork[k] for k in fork):
            errs.append("pending fork")
        if s.auto_fork_type is not StateForkType.REF:
            errs.append("auto_fork_type")
        rec.obligations += 1
        if not errs:
            rec.discharged += 1
        else:
            rec.violation_from_script("untouched", "C13:trajectory-touches-state", f"""
from leaspy.models.factory import model_factory
m = model_factory({kind!r}, **{kw!r}); m._initialize_state(); s = m.state
from leaspy.variables.specs import ModelParameter
for p, var in m.dag.sorted_variables_by_type[ModelParameter].items(): s[p] = torch.ones(var.shape) * 0.5
s.put_population_latent_variables('mode')
s['xi'] = torch.zeros((2, 1)); s['tau'] = torch.ones((2, 1)) * 70
{"s['sources'] = torch.zeros((2, m.source_dimension))" if kw.get('source_dimension') else ''}
s['xi'] = s['xi'] + 1; s['alpha']
before = dict(s._values); fork = dict(s._last_fork)
ip = {{'xi': 0.1, 'tau': 71.0{", 'sources': [0.1] * m.source_dimension" if kw.get('source_dimension') else ''}}}
m.compute_individual_trajectory([70.0, 75.0], ip)
bad = [k for k in before if s._values[k] is not before[k]] + ([] if (s._last_fork is not None and all(s._last_fork[k] is fork[k] for k in fork)) else ['fork'])
print(bad); sys.exit(1 if bad else 0)
""", what=f"compute_individual_trajectory modified the model state: {errs[:4]}")
        rec.sample({"model": cfg_name(kind, kw), "untouched_entries": len(before)})
        rec.end_path()
        return rec.result()

    return guarded(PROP, task, body)


class _DS:
    """stand-in for a Dataset (only what put_data_variables / the getters read)"""

    def __init__(self, n_ind, n_vis, d):
        self.n_individuals = n_ind
        self.timepoints = st.sym("D_t", (n_ind, n_vis))
        self.values = st.sym("D_y", (n_ind, n_vis, d))
        self.mask = st.sym("D_mask", (n_ind, n_vis, d), torch.bool)
        self.indices = [f"s{i}" for i in range(n_ind)]


def mcmc_prologue_epilogue_task(kind, kw):
    task = f"mcmc-personalize-state[{cfg_name(kind, kw)}]"

    def body():
        m = build_model(kind, **kw)
        rec = Recorder(PROP, task, [McmcPersonalizeAlgorithm._initialize_algo, McmcPersonalizeAlgorithm._terminate_algo, McmcSaemCompatibleModel.put_data_variables,
                                    McmcSaemCompatibleModel.reset_data_variables, State.put_individual_latent_variables])
        st.new_context("R")
        s0 = m.state
        put_symbolic_parameters(s0)
        put_symbolic_population(s0)
        keep = {k: s0._values[k] for k in list(by_type(m.dag, ModelParameter)) + list(by_type(m.dag, PopulationLatentVariable)) + list(by_type(m.dag, Hyperparameter))}

        class Host:
            _initialize_algo = McmcPersonalizeAlgorithm._initialize_algo
            _terminate_algo = McmcPersonalizeAlgorithm._terminate_algo

            def _initialize_samplers(self, state, dataset):
                pass

            def _initialize_annealing(self):
                pass

        rec.stubs += ["_initialize_samplers / _initialize_annealing -> no-ops", "Dataset -> stand-in with symbolic timepoints / values / mask"]
        h = Host()
        ds = _DS(2, 2, m.dimension)
        state = h._initialize_algo(m, ds)
        # a few sampler-like moves on the working state
        state["tau"] = state["tau"] + 1
        state["nll_attach_ind"]
        state.revert()
        state["xi"] = state["xi"] + 1
        h._terminate_algo(m, state)
        s1 = m.state
        errs = []
        for k, v in keep.items():
            a, b = value_terms(s1._values[k])[0], value_terms(v)[0]
            if a.shape != b.shape or not all(x.eq(y) for x, y in zip(a.reshape(-1), b.reshape(-1))):
                errs.append(f"{k} changed")
        for k in list(by_type(m.dag, DataVariable)) + list(by_type(m.dag, IndividualLatentVariable)):
            if s1._values[k] is not None:
                errs.append(f"{k} left behind in the model")
        if s1._last_fork is not None:
            errs.append("pending fork left in the model")
        # nothing derived from the call's data stays cached
        for k in ("model", "nll_attach", "nll_attach_ind", "rt"):
            if k in m.dag and s1._values[k] is not None:
                errs.append(f"derived value {k} of the call's data left cached")
        rec.obligations += 1
        if not errs:
            rec.discharged += 1
        else:
            rec.violation_from_script("state-after-personalize", "C13:mcmc-personalize-leaves-traces", _mcmc_replay(kind, kw), what=str(errs[:4]))
        rec.sample({"model": cfg_name(kind, kw), "kept": sorted(keep)[:8]})
        rec.end_path()
        return rec.result()

    return guarded(PROP, task, body)


def _mcmc_replay(kind, kw):
    return f"""
import numpy as np, pandas as pd
from leaspy.models.factory import model_factory
from leaspy.io.data import Data
from leaspy.variables.specs import ModelParameter, DataVariable, IndividualLatentVariable
m = model_factory({kind!r}, **{kw!r}); m._initialize_state(); s = m.state
for p, var in m.dag.sorted_variables_by_type[ModelParameter].items(): s[p] = torch.ones(var.shape) * (70.0 if p == 'tau_mean' else 0.5)
s.put_population_latent_variables('mode'); m._is_initialized = True
params = {{k: v.clone() for k, v in m.parameters.items()}}
rows = [(i, t, *[0.3 + 0.01 * k + 0.02 * j for k in range(m.dimension)]) for i in ('a', 'b') for j, t in enumerate((68.0, 70.0, 72.0))]
df = pd.DataFrame(rows, columns=['ID', 'TIME'] + m.features)
m.personalize(Data.from_dataframe(df), 'mean_posterior', seed=0, n_iter=20, progress_bar=False)
s1 = m.state
bad = [k for k in params if not torch.equal(params[k], s1[k])]
bad += [k for k in list(m.dag.sorted_variables_by_type[DataVariable]) + list(m.dag.sorted_variables_by_type[IndividualLatentVariable]) if s1._values[k] is not None]
print(bad); sys.exit(1 if bad else 0)
"""


def start_point_task(kind, kw):
    """history independence of the scipy start point: same parameters / inputs, different leftovers in model.state"""
    task = f"scipy-start-point[{cfg_name(kind, kw)}]"

    def body():
        m = build_model(kind, **kw)
        rec = Recorder(PROP, task, [TimeReparametrizedModel.put_individual_parameters, State.put_individual_latent_variables, State.are_variables_set])
        st.new_context("R")
        base = m.state
        put_symbolic_parameters(base)
        put_symbolic_population(base)
        A = base.clone(disable_auto_fork=True)  # object freshly loaded: no individual values
        B = base.clone(disable_auto_fork=True)  # object after a fit: individual values of the fit cohort are still there
        put_symbolic_individuals(B, 3, prefix="leftover_")
        # prior sampling -> fresh symbols (same symbols for both: same seed)
        import leaspy.variables.state as sm

        def fake_put(self, method=None, *, n_individuals=None, df=None):
            for name, shp in individual_shapes(self, n_individuals).items():
                self[name] = st.sym(f"prior_sample_{name}", shp, register=False)

        orig = State.put_individual_latent_variables
        State.put_individual_latent_variables = fake_put
        rec.stubs.append("prior sampling of individual variables -> fresh symbols (identical in both executions)")
        try:
            ds = _DS(1, 2, m.dimension)
            for S_ in (A, B):
                m.put_individual_parameters(S_, ds)
        finally:
            State.put_individual_latent_variables = orig
        script = _start_point_replay()
        for name in by_type(m.dag, IndividualLatentVariable):
            a, b = value_terms(A[name])[0], value_terms(B[name])[0]
            rec.obligations += 1
            same = a.shape == b.shape and all(x.eq(y) or T.prove(x == y, 10000).status == "unsat" for x, y in zip(a[0].reshape(-1), b[0].reshape(-1)))
            if same:
                rec.discharged += 1
            elif not rec.violations:
                rec.violation_from_script(f"start[{name}]", "C13:scipy-start-point-depends-on-leftover-individual-values", script,
                                          what=f"start point of scipy_minimize for {name} is taken from individual values left in model.state by an earlier call (shape {b.shape}) instead of depending on parameters / inputs / seed only")
        rec.sample({"model": cfg_name(kind, kw), "pre_states": ["no individual values", "leftover individual values of a 3-subject cohort"]})
        rec.end_path()
        return rec.result()

    return guarded(PROP, task, body)


def _start_point_replay():
    return """
# public route: the same parameters in a freshly loaded object and in an object that still holds individual values of an earlier call
import numpy as np, pandas as pd, copy
from leaspy.models import LogisticModel
from leaspy.io.data import Data
def make():
    m = LogisticModel('logistic', features=['a'], obs_models='gaussian-scalar')
    m.load_parameters({'log_g_mean': [0.5], 'log_v0_mean': [-3.0], 'tau_mean': [70.0], 'tau_std': [8.0], 'xi_std': [0.5], 'noise_std': [0.05]}); m._is_initialized = True
    return m
rows = [('p', t, v) for t, v in zip((66., 69., 72., 75.), (0.30, 0.33, 0.41, 0.44))]
data = Data.from_dataframe(pd.DataFrame(rows, columns=['ID', 'TIME', 'a']))
m1 = make()
m2 = make()
with m2.state.auto_fork(None):   # what a fit leaves behind: individual values of its cohort
    m2.state['xi'] = torch.tensor([[1.5], [0.2], [-0.3]]); m2.state['tau'] = torch.tensor([[95.0], [60.0], [71.0]])
r1 = m1.personalize(data, 'scipy_minimize', seed=0, progress_bar=False, use_jacobian=False)
r2 = m2.personalize(data, 'scipy_minimize', seed=0, progress_bar=False, use_jacobian=False)
d = {k: (r1['p'][k], r2['p'][k]) for k in r1['p']}
same = all(np.allclose(np.atleast_1d(a), np.atleast_1d(b), rtol=0, atol=0) for a, b in d.values())
print('freshly loaded vs object holding leftovers:', d)
sys.exit(0 if same else 1)
"""


def scipy_plumbing_task(n_ids):
    from harness.c17 import plumbing_task

    return plumbing_task(n_ids, prop=PROP)


def crosshair_task():
    task = "crosshair[settings-untouched]"

    def body():
        from vcheck.crosshair_util import run_crosshair, record
        from leaspy.algo.base import BaseAlgorithm

        rec = Recorder(PROP, task, [BaseAlgorithm.__init__])
        path = "/verif/crosshair_harness/c13_settings.py"
        res = run_crosshair(path, per_condition_timeout=60)
        record(rec, task, res, path)
        return rec.result()

    return guarded(PROP, task, body)


def tasks(tier, seed=0):
    ts = [("trajectory_untouched_task", dict(kind="logistic", kw=dict(features=["a", "b"], source_dimension=1))),
          ("mcmc_prologue_epilogue_task", dict(kind="logistic", kw=dict(features=["a", "b"], source_dimension=1))),
          ("start_point_task", dict(kind="logistic", kw=dict(features=["a", "b"], source_dimension=1))),
          ("scipy_plumbing_task", dict(n_ids=3)), ("crosshair_task", {})]
    if tier == "thorough":
        ts += [("trajectory_untouched_task", dict(kind="linear", kw=dict(features=["a", "b"], source_dimension=0))),
               ("mcmc_prologue_epilogue_task", dict(kind="linear", kw=dict(features=["a", "b"], source_dimension=0))),
               ("start_point_task", dict(kind="linear", kw=dict(features=["a", "b"], source_dimension=0)))]
    return ts
